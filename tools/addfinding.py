#!/usr/bin/env python3
"""addfinding.py <property> <id> <status> <reproducer|-> <commit|-> <what> [exclude-key ...] [--match S]
Appends (or replaces by id) an entry of known_findings.json."""
import json, sys
args = sys.argv[1:]
match = ""
if "--match" in args:
    i = args.index("--match"); match = args[i+1]; del args[i:i+2]
prop, fid, status, repro, commit, what = args[:6]
excl = args[6:]
p = "/verif/known_findings.json"
doc = json.load(open(p))
doc["findings"] = [f for f in doc["findings"] if f["id"] != fid]
e = {"property": prop, "id": fid, "status": status, "what": what}
if repro != "-": e["reproducer"] = repro
if commit != "-": e["commit"] = commit
if excl: e["exclude"] = excl
if match: e["match"] = match
if status == "fixed":
    e["line"] = "fixed: property=%s %s %s" % (prop, commit, what)
doc["findings"].append(e)
doc["findings"].sort(key=lambda f: (f["property"], f["id"]))
json.dump(doc, open(p, "w"), indent=1)
open(p, "a").write("\n")
