#!/usr/bin/env python3
"""mkmut.py <name> <file> <old> <new> [<file> <old> <new> ...] -- make seeded/<name>/patch.diff from exact-string replacements against /repo HEAD."""
import sys, subprocess, tempfile, os, shutil
name = sys.argv[1]; trip = sys.argv[2:]
d = tempfile.mkdtemp(prefix="mkmut-", dir="/tmp")
subprocess.check_call("git -C /repo archive HEAD | tar -x -C %s && cd %s && git init -q && git add -A && git -c user.email=x@x -c user.name=x commit -qm base" % (d, d), shell=True)
for i in range(0, len(trip), 3):
    f, old, new = trip[i:i+3]
    p = os.path.join(d, f); s = open(p).read()
    if s.count(old) != 1:
        print("pattern occurs %d times in %s" % (s.count(old), f)); shutil.rmtree(d); sys.exit(1)
    open(p, "w").write(s.replace(old, new))
out = "/verif/seeded/" + name
os.makedirs(out, exist_ok=True)
diff = subprocess.check_output(["git", "-C", d, "diff"], text=True)
open(out + "/patch.diff", "w").write(diff)
shutil.rmtree(d)
print(diff)
