#!/usr/bin/env python3
"""mkprompts.py <round> <letter1> <letter2> <outdir> <prop>...
Writes one sub-agent prompt per property: the property text only (from
properties.jsonl), a scratch worktree path /tmp/wt<round>-<prop>, the delivery
format, and one-paragraph summaries of the changes already kept in seeded/ for
that property (so that a new round does not repeat them). Nothing else from
/verif is given to the agent."""
import json, sys, glob, os

rnd, l1, l2, outdir = sys.argv[1:5]
props = sys.argv[5:]
P = {json.loads(l)["id"]: json.loads(l) for l in open("/verif/properties.jsonl")}
os.makedirs(outdir, exist_ok=True)

TEMPLATE = r"""You are helping evaluate a verification framework for the Go library amzn/ion-go (an implementation of the Amazon Ion data format). Your job: produce TWO independent, realistic code changes ("seeded defects") to the library, each of which BREAKS the semantic property below while the library still compiles and its existing test suite still passes.

## The property (@ID@: @TITLE@)

Statement: @STATEMENT@

Quantified over: @QUANT@

Code the property is anchored in: @FILES@
Mechanisms: @MECH@

## Your workspace

You have your own scratch git worktree of the repository at @WT@ (package sources in @WT@/ion and @WT@/cmd/ion-go). Work ONLY there. Never touch /repo or /verif, and do not read anything under /verif. The sandbox has no network. For every go command use this environment:

  export GOFLAGS=-mod=mod GOPROXY=off GOSUMDB=off GOTOOLCHAIN=local

The existing test suite is `cd @WT@ && go test -vet=off -count=1 -timeout 10m ./... 2>&1 | tail -40`. NOTE: a few tests already fail on the untouched tree because an external test corpus (ion-tests) is absent. Run the suite ONCE on the untouched worktree first with `go test -vet=off -count=1 -timeout 10m -json ./... > /tmp/base@RND@-@ID@.json` and extract the set of passing test names; after each change the same set of tests must still pass (no test that passed before may fail or vanish).

## What to produce

Two changes, @U1@ and @U2@, at different places in the code / through different mechanisms. Each must:
1. compile, and keep every previously-passing existing test passing (do not edit or delete existing tests);
2. break the property above in a way that needs something SPECIFIC to manifest: an unusual input, a boundary value, a multi-step sequence of operations, a particular chunking / fault point / interleaving, or two cooperating sites that each look fine alone. NOT something ordinary use exposes at once (a change that breaks every document is useless);
3. look like a plausible maintainer slip or "optimisation"/refactoring (off-by-one on a boundary, a dropped branch, a wrong comparison, missed reset of state, a fast path that forgets a case) — no sabotage-looking code, no special-casing magic constants that no real code would have;
4. be small (typically 1-15 changed lines) and be a change to non-test source files under ion/ or cmd/ion-go/.
5. come with a demonstration: a Go test file (package ion, or package main for cmd/ion-go) containing a test named TestSeed@ID@@U1@ (resp. TestSeed@ID@@U2@) that FAILS with the change applied and PASSES on the untouched tree. The demonstration must use only the public behaviour the property talks about.
@CMDNOTE@
For each change X in {@L1@, @L2@} write these files (create the directory):
  @OUT@/@ID@/X/patch.diff   — output of `git -C @WT@ diff` for that change alone (relative to the untouched HEAD; non-test files only)
  @OUT@/@ID@/X/demo_test.go — the demonstration test file (to be dropped into ion/ or cmd/ion-go/)
  @OUT@/@ID@/X/meta.json    — {"property": "@ID@", "summary": "...what was changed...", "needs_to_manifest": "...what specific input/sequence/fault is needed...", "demo_place": "ion" or "cmd/ion-go", "ran": ["commands you ran and their outcome"]}

Procedure per change: make the edit in the worktree; run the full suite and compare with the baseline set; put the demo test in place, confirm it fails; revert the source edit by saving `git diff` to a file and running `git checkout -- ion cmd` (do NOT use `git stash`: the stash is shared between worktrees), confirm the demo passes on the untouched tree; save patch.diff (source change only, not the demo). After saving the first change, restore the worktree to a clean HEAD (`git -C @WT@ checkout -- . && git -C @WT@ clean -fdq`) before starting the second, so that the two patches are independent and each applies to the untouched HEAD. Leave the worktree clean at the end. Never deliver a change that can make a test or the tool loop forever or allocate without bound.

## Already delivered by other engineers

Do NOT repeat the changes below or close variants of them (same function, same mechanism, same trigger family):
@PRIOR@

Produce two NEW changes in different functions and through different mechanisms from all of the above and from each other. Look for places the earlier rounds did not touch at all, and prefer triggers that need a combination of features or a multi-step sequence.

Finish by replying with a 5-line summary of the two changes (file/function, what breaks, what is needed to see it). If you cannot find a second qualifying change after a serious attempt, deliver one and say so.
"""

for pid in props:
    p = P[pid]
    prior = []
    for m in sorted(glob.glob("/verif/seeded/*/meta.json")):
        j = json.load(open(m))
        if j.get("breaks_property", j.get("property")) != pid:
            continue
        s = j.get("summary") or j.get("what") or ""
        if s:
            prior.append("- " + s[:700])
    mech = "; ".join("%s (%s)" % (m["name"], m["where"]) for m in p["anchors"].get("mechanism", []))
    wt = "/tmp/wt%s-%s" % (rnd, pid)
    cmdnote = ""
    if any("cmd/" in f for f in p["anchors"]["files"]):
        cmdnote = "\nNotes for cmd/ion-go: the package has no tests of its own; the demonstration may be a Go test in package main (file cmd/ion-go/zz_demo_test.go, demo_place \"cmd/ion-go\") that calls process(...) on temp files.\n"
    t = TEMPLATE
    for k, v in {"@ID@": pid, "@TITLE@": p["title"], "@STATEMENT@": p["statement"], "@QUANT@": p["quantifier"]["text"],
                 "@FILES@": ", ".join(p["anchors"]["files"]), "@MECH@": mech, "@WT@": wt, "@RND@": rnd,
                 "@U1@": l1.upper(), "@U2@": l2.upper(), "@L1@": l1, "@L2@": l2, "@OUT@": "/tmp/seed-out" + rnd,
                 "@CMDNOTE@": cmdnote, "@PRIOR@": "\n".join(prior) or "(none yet)"}.items():
        t = t.replace(k, v)
    open(os.path.join(outdir, pid + ".txt"), "w").write(t)
    print(pid, len(prior), "prior changes,", len(t), "chars")
