#!/usr/bin/env python3
"""Runs the repository's own test suite (guard off) in DIR (default /repo) and
compares the set of passing tests with /root/.vp/BASELINE.json."""
import json, os, subprocess, sys
d = sys.argv[1] if len(sys.argv) > 1 else "/repo"
env = dict(os.environ, GOFLAGS="-mod=mod", GOPROXY="off", GOSUMDB="off", GOTOOLCHAIN="local")
r = subprocess.run(["go", "test", "-json", "-vet=off", "-count=1", "-timeout", "25m", "./..."], cwd=d, env=env, capture_output=True, text=True)
passed, failed = set(), set()
for line in r.stdout.splitlines():
    try:
        ev = json.loads(line)
    except ValueError:
        continue
    if ev.get("Test") and ev.get("Action") in ("pass", "fail"):
        name = "%s::%s" % (ev["Package"], ev["Test"])
        (passed if ev["Action"] == "pass" else failed).add(name)
base = json.load(open("/root/.vp/BASELINE.json"))
want = set(base["stable_pass"])
missing = sorted(want - passed)
newfail = sorted(f for f in failed if f in want)
print("passed=%d failed=%d baseline=%d missing_from_pass=%d" % (len(passed), len(failed), len(want), len(missing)))
for m in missing[:20]:
    print("  MISSING", m)
if r.returncode not in (0, 1) or (not passed):
    print(r.stderr[-2000:])
sys.exit(1 if missing else 0)
