#!/bin/bash
# run C07 quick and summarise violations
export GOFLAGS=-mod=mod GOPROXY=off GOSUMDB=off GOTOOLCHAIN=local
cd /verif; rm -rf replays; ./check ${1:-C07} ${2:-quick} 2>&1 | grep -E "^OK|INCONCL" ; python3 - <<'P'
import json,base64,glob
for f in sorted(glob.glob('/verif/replays/C*.json')):
    r=json.load(open(f)); c=r['case']
    if 'doc' in c:
        d=base64.b64decode(c['doc'])
        print(c.get('op'),c.get('pos'), d if d[:1]!=b'\xe0' else d.hex(), '|', r['failure'].split('\n')[0][:160])
    else:
        print(f, r['failure'][:300])
P
