#!/usr/bin/env python3
"""keepseed.py <src-dir> <name> <property> <detected-by text>  -- copy a verified sub-agent mutant into seeded/<name>/ and extend meta.json"""
import json, sys, shutil, os
src, name, prop, det = sys.argv[1:5]
dst = "/verif/seeded/" + name
os.makedirs(dst, exist_ok=True)
for f in ("patch.diff", "demo_test.go"):
    shutil.copy(os.path.join(src, f), dst)
m = json.load(open(os.path.join(src, "meta.json")))
m["origin"] = "sub-agent given only the property text and a scratch worktree"
m["breaks_property"] = prop
m["verified_by_me"] = ["tools/tryseed.sh: repository suite still matches the baseline (972 passing) with the change", "demo_test.go passes on the untouched tree and fails with the change", "quick check of %s against the changed tree" % prop]
m["detected_by"] = det
json.dump(m, open(os.path.join(dst, "meta.json"), "w"), indent=1)
