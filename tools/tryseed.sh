#!/bin/bash
# tryseed.sh <seed-dir> <prop> [<prop>...]  -- applies <seed-dir>/patch.diff to a scratch copy of /repo (current HEAD),
# checks the repository suite still matches the baseline, runs the listed quick checks against the copy, cleans up.
set -u
SEED=$1; shift
export GOFLAGS=-mod=mod GOPROXY=off GOSUMDB=off GOTOOLCHAIN=local
D=$(mktemp -d /tmp/ionmut-XXXXXX)
git -C /repo archive HEAD | tar -x -C "$D"
( cd "$D" && git init -q && git add -A >/dev/null && git -c user.email=x@x -c user.name=x commit -qm base )
demo_run() { # $1 = label
  if [ -f "$SEED/demo_test.go" ] && [ "${SKIP_DEMO:-}" = "" ]; then
    place=$(python3 -c "import json;print(json.load(open('$SEED/meta.json')).get('demo_place','ion'))" 2>/dev/null || echo ion)
    case "$place" in *cmd*) pd=cmd/ion-go;; *) pd=ion;; esac
    cp "$SEED/demo_test.go" "$D/$pd/zz_demo_test.go"
    ( cd "$D" && go test -vet=off -count=1 -run 'Seed|Demo' ./$pd/ 2>&1 | tail -2 | sed "s/^/  demo($1): /" )
    rm -f "$D/$pd/zz_demo_test.go"
  fi
}
demo_run "untouched tree"
if ! ( cd "$D" && git apply "$SEED/patch.diff" 2>/dev/null || git apply -3 "$SEED/patch.diff" 2>/dev/null || patch -p1 --quiet < "$SEED/patch.diff" ); then
  echo "PATCH-DOES-NOT-APPLY $SEED"; rm -rf "$D"; exit 3
fi
( cd "$D" && go build ./... ) || { echo "DOES-NOT-COMPILE"; rm -rf "$D"; exit 3; }
if [ "${SKIP_BASELINE:-}" = "" ]; then /verif/tools/baseline.py "$D" | head -3; fi
demo_run "with change"
rc=0
for p in "$@"; do
  out=$(cd /verif && VERIF_SEED=${VERIF_SEED:-1} ./check $p quick --ion-src "$D" 2>&1 | grep -E "^(VIOLATION|OK|INCONCLUSIVE|  detail)" | head -4)
  echo "[$p] $out"
done
# remove only what this run built (several runs may be in flight)
TAG=$(printf %s "$D" | sha1sum | cut -c1-8)
rm -rf "$D" /verif/.bin/alt-$TAG.mod /verif/.bin/alt-$TAG.sum /verif/.bin/*-$TAG.test /verif/.bin/ion-go-$TAG /verif/.bin/c06worker-$TAG
