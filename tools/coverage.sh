#!/bin/bash
# coverage.sh [tier] -- which statements of ion-go do the checks execute?  (development aid, not a registered check)
# Builds the harness, the C06 worker and the CLI with coverage instrumentation of github.com/amzn/ion-go/...,
# runs every TestCxx on shard 0/4 of the given tier (default quick), merges the profiles and prints the
# statements of non-test ion-go source that no check reached (.bin/coverage/uncovered.txt).
set -u
export GOFLAGS=-mod=mod GOPROXY=off GOSUMDB=off GOTOOLCHAIN=local VERIF_ROOT=/verif
TIER=${1:-quick}
OUT=/verif/.bin/coverage
rm -rf $OUT; mkdir -p $OUT/sub $OUT/prof
cd /verif/h
PKGS=github.com/amzn/ion-go/ion,github.com/amzn/ion-go/cmd/ion-go,github.com/amzn/ion-go/internal
go test -c -tags verif -cover -covermode=atomic -coverpkg=$PKGS -o $OUT/checks.test ./checks || exit 2
go build -cover -covermode=atomic -coverpkg=$PKGS -o $OUT/ion-go github.com/amzn/ion-go/cmd/ion-go || exit 2
# the main package must be among the covered ones, or the binary writes no counters at all
go build -cover -covermode=atomic -coverpkg=github.com/amzn/ion-go/ion,verif/h/cmd/c06worker -o $OUT/c06worker ./cmd/c06worker || exit 2
cd checks
for i in $(seq -w 1 20); do
  p=C$i
  ( VERIF_TIER=$TIER VERIF_SHARD=0/4 VERIF_STATS=$OUT/stats-$p.json VERIF_TMP=$OUT VERIF_CLI=$OUT/ion-go VERIF_WORKER=$OUT/c06worker GOCOVERDIR=$OUT/sub \
    $OUT/checks.test -test.run "^Test$p\$" -test.timeout 1800s -rapid.seed=7 -rapid.nofailfile -test.coverprofile=$OUT/prof/$p.out > $OUT/$p.log 2>&1; echo "$p rc=$?" ) &
  if (( 10#$i % 8 == 0 )); then wait; fi
done
wait
go tool covdata textfmt -i=$OUT/sub -o $OUT/prof/sub.out 2>/dev/null
python3 - "$OUT" <<'EOF'
import sys, glob, collections, os
out = sys.argv[1]
cov = collections.defaultdict(int); stm = {}
per = collections.defaultdict(set)
for f in glob.glob(out + "/prof/*.out"):
    name = os.path.basename(f)[:-4]
    for line in open(f):
        if line.startswith("mode:"): continue
        loc, n, c = line.rsplit(" ", 2)
        cov[loc] += int(c); stm[loc] = int(n)
        if int(c): per[loc].add(name)
files = collections.defaultdict(list)
tot = hit = 0
for loc, c in cov.items():
    fn, rng = loc.split(":")
    if fn.startswith("verif/"): continue
    tot += stm[loc]; hit += stm[loc] if c else 0
    if not c:
        a, b = rng.split(",")
        files[fn].append((int(a.split(".")[0]), int(b.split(".")[0])))
with open(out + "/uncovered.txt", "w") as w:
    w.write("statements %d covered %d (%.1f%%)\n" % (tot, hit, 100.0 * hit / max(1, tot)))
    for fn in sorted(files):
        path = fn.replace("github.com/amzn/ion-go/", "/repo/")
        src = open(path).read().split("\n") if os.path.exists(path) else []
        w.write("\n== %s (%d blocks)\n" % (fn, len(files[fn])))
        for a, b in sorted(files[fn]):
            w.write("  %d-%d: %s\n" % (a, b, src[a - 1].strip()[:110] if src else ""))
print(open(out + "/uncovered.txt").readline().strip())
EOF
