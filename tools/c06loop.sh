#!/bin/bash
export GOFLAGS=-mod=mod GOPROXY=off GOSUMDB=off GOTOOLCHAIN=local
cd /verif; rm -rf replays; ./check C06 ${1:-quick} 2>&1 | grep -E "^OK|INCONCL|^shard" ; python3 - <<'P'
import json,base64,glob
seen=set()
for f in sorted(glob.glob('/verif/replays/C06*.json')):
    r=json.load(open(f)); c=r['case']; d=base64.b64decode(c['input'])
    key=r['failure'].split('\n')[0][:90]
    if key in seen: continue
    seen.add(key)
    print('kind',c['kind'],'arg',c.get('arg'), (d if d[:1]!=b'\xe0' else d.hex())[:300], '|', r['failure'].split('\n')[0][:330])
P
