#!/bin/bash
# runs the thorough tier of every property in turn; prints one line per property
cd "$(dirname "$0")/.."
for i in 01 02 03 04 05 06 07 08 09 10 11 12 13 14 15 16 17 18 19 20; do
  s=$(date +%s); out=$(./check C$i thorough 2>&1 | grep -E "^(OK|VIOLATION|INCONCLUSIVE|  detail)" | head -6); e=$(date +%s)
  echo "C$i $((e-s))s $out"
done
