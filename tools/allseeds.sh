#!/bin/bash
# allseeds.sh [pattern] -- run every kept mutant under seeded/ against its property's quick check; prints one line per mutant.
# SHARD=i/n runs every n-th mutant starting at the i-th (several shards may run side by side).
cd /verif
si=${SHARD%/*}; sn=${SHARD#*/}; k=0
for d in seeded/*/; do
  n=$(basename $d)
  case "$n" in *${1:-}*) ;; *) continue;; esac
  k=$((k+1))
  if [ -n "${SHARD:-}" ] && [ $((k % sn)) -ne "$si" ]; then continue; fi
  if [ -f $d/meta.json ]; then p=$(python3 -c "import json;print(json.load(open('$d/meta.json')).get('breaks_property') or json.load(open('$d/meta.json'))['property'])"); else p=$(echo $n | sed -E 's/^c([0-9]+).*/C\1/'); fi
  out=$(SKIP_BASELINE=1 SKIP_DEMO=1 timeout 1200 tools/tryseed.sh /verif/$d $p 2>&1 | grep -E "^\[C|APPLY|COMPILE" | head -1 | cut -c1-60)
  echo "$n $p $out"
done
if [ -z "${SHARD:-}" ]; then rm -rf /verif/replays; fi
