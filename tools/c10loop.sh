#!/bin/bash
export GOFLAGS=-mod=mod GOPROXY=off GOSUMDB=off GOTOOLCHAIN=local
cd /verif; rm -rf replays; ./check ${1:-C10} ${2:-quick} 2>&1 | grep -E "^OK|INCONCL|^shard|HARNESS|SELF-CHECK" | cut -c1-1500; python3 - <<'P'
import json,base64,glob
seen=set()
for f in sorted(glob.glob('/verif/replays/C*.json')):
    r=json.load(open(f)); c=r['case']
    key=r['failure'].split('\n')[0][:80]
    if key in seen: continue
    seen.add(key)
    print(r['failure'][:1500]); print()
P
