#!/usr/bin/env python3
"""Regenerates MANIFEST.json from the table below (kept next to the driver so the
two cannot drift)."""
import json, os

ROOT = os.path.dirname(os.path.abspath(__file__))

# id -> (technique, level text, level note, design ref)
PBT = "property-based testing with pgregory.net/rapid (structured generators, shrinking) + exhaustive boundary grids"
CLAIMED = {
    "C01": (PBT + "; round-trip oracle (write with ion-go, read with ion-go, compare in the harness's Ion data model)",
            "Exploration: ~10^5 generated (mode, value sequence, API route) cases per quick run over all 13 types, typed nulls, boundary numbers, reserved-looking symbol text, deep nesting, plus an enumerated boundary pool; a failure is shrunk and saved as a replay file.",
            "Uses ion-go's own reader as the inverse (symmetric writer/reader mistakes are C04's job). Conditional on the writer finishing without error. Trusts the harness model/equality, rapid, Go.",
            "DESIGN.md section 5, C01"),
    "C02": (PBT + "; reference-model oracle (independent spec-derived text printer with randomised spelling, self-checked by an independent strict parser)",
            "Exploration: ~10^5 documents per quick run, each a generated value stream rendered with random spelling choices at every token (whitespace/comments, radix, underscores, exponent forms, escapes, long-string segmentation, $n symbols with a declared table, lob whitespace, offsets, trailing commas); ion-go's reader must yield exactly the model.",
            "Trusts the harness's printer and parser (cross-checked against each other on every document; a disagreement aborts with exit 2, never a violation). Spellings whose legality could not be confirmed offline are not emitted (listed in evidence assumptions).",
            "DESIGN.md section 5, C02; section 9.4"),
    "C03": (PBT + "; reference-model oracle (independent spec-derived binary encoder with randomised representation choices, self-checked by an independent strict decoder)",
            "Exploration: ~10^5 documents per quick run with random representation choices per value (length forms, VarUInt padding, leading zero bytes, float widths, NOP pads, sorted structs, repeated IVMs, split/appended symbol tables, wrappers around everything); ion-go's reader must yield exactly the model.",
            "Trusts the harness's encoder and decoder (cross-checked on every document). VarUInt over-padding stays within ion-go's documented 10-byte limit.",
            "DESIGN.md section 5, C03; section 9.2"),
    "C04": (PBT + "; independent strict binary decoder / text parser as oracle over the bytes ion-go's writers emit",
            "Exploration: ~10^5 writer runs per quick run over 4 writer configurations (text, pretty, binary growing table, binary fixed table), 0-3 shared tables, 1-3 Finish-separated batches; the independent decoder checks IVM first, exact lengths and nesting, every SID <= max_id of the table in force, and value equality.",
            "Trusts the harness's decoders (no code shared with ion-go). Conditional on all writer calls returning nil.",
            "DESIGN.md section 5, C04"),
    "C08": (PBT + "; reference cursor over the value tree as oracle (metamorphic: any navigation program vs a plain full traversal of the same bytes, which must itself equal the generated model); exhaustive enumeration of short programs",
            "Exploration with an exhaustive sub-grid: every program up to length 6 (7 in thorough) over {Next, StepIn, StepOut, full read} on ~30 small documents with skip-hostile content in both formats (~330 000 runs) plus 80 000 generated (document, program) pairs per quick run: documents from the C02 text printer / C03 binary encoder with random spelling, programs of 1-40 steps including StepIn on scalars and nulls, StepOut at top level, wrong-type accessors and re-queries, then a plain traversal of everything left; every Next result, Type, IsNull, Annotations, FieldName, IsInStruct and value read is compared with the cursor's prediction.",
            "Next after the end of a container and StepIn with no current value are not issued (the property does not list them as refusals). A panic during navigation ends the case and is counted as discarded (C06's subject). A document whose plain traversal disagrees with the model is discarded (C02/C03's subject). Trusts the harness cursor, printer and encoder.",
            "DESIGN.md section 5, C08; section 10.1"),
    "C09": (PBT + "; independent model of the symbol-ID space (system slots, import slots with padding / truncation, locals) as reference; rapid state machine over SymbolTableBuilder with snapshot invariants",
            "Exploration with an exhaustive small grid: ~17 000 enumerated import/local configurations plus ~40 000 generated ones per quick run (0-4 imports with declared max_id below / equal / above the table size, catalog hit exact / other version / missing, duplicate and shadowing text), each table built three ways (API, text declaration, binary declaration) and compared with the model for every ID in 0..MaxID+2 and every alphabet text; builder state machine (Add / Build / lookups, all earlier snapshots re-checked each step); catalogs from arbitrary multisets and Adjust to every max_id.",
            "The empty text is exempt from the by-name / lowest-ID assertions because ion-go deliberately does not index it (by-ID results for it are still checked). Trusts the harness's ID-space model, rapid, Go.",
            "DESIGN.md section 5, C09; section 9.3"),
    "C12": (PBT + "; reference writer-protocol automaton + independent strict decoders as oracle; exhaustive enumeration of short call sequences",
            "Exploration with an exhaustive sub-grid: every call sequence up to length 5 (6 in thorough) over a 9-call alphabet x 6 writer configurations (incl. binary and text writers with shared tables; ~400 000) plus 32 000 generated sequences of 1-40 calls over the whole Writer interface with per-case legality bias (75 / 93 / 100 %); checks no panic, error stickiness, Finish refused inside a container, determinism, and for nil-finished sequences that the stream decodes (independent decoder) to exactly the values of the succeeded calls.",
            "Sequences that abandon a pending field name or annotation (End*/Finish straight after FieldName/Annotation) have undocumented semantics: they are checked for panic / stickiness / determinism but not for stream content, and are counted under discarded.ambiguous_sequence. Trusts the harness automaton and decoders.",
            "DESIGN.md section 5, C12; section 10.2"),
    "C13": (PBT + "; exhaustive integer-boundary, accessor-matrix and magnitude grids against a big-integer reference model and the independent binary decoder",
            "Exploration with exhaustive sub-grids: every +-(2^k+d) boundary x 12 presentations, all 16-bit values, the full 11 accessors x 13 types x null x format matrix, float pools and random bit patterns, payload lengths to 2^21, decimal exponents to +-(2^31-1), symbol IDs to 2^62.",
            "IntSize is checked one-directionally as the property states. Symbol IDs above 2^20 are checked on the emitted bytes and via ion-go's reader with a catalog.",
            "DESIGN.md section 5, C13"),
    "C14": (PBT + "; exact big-integer reference model for decimal arithmetic; grammar + inverse oracle for String/ParseDecimal",
            "Exploration: ~10^5 generated (op, a, b, n) cases per quick run plus two exhaustive grids, each judged by exact scaled-integer arithmetic written independently of ion-go.",
            "Trusts math/big, the harness's own arithmetic, rapid. Exponent differences are bounded so exact rescaling is feasible; exponent -2^31 only in the String/Parse sub-check.",
            "DESIGN.md section 5, C14"),
    "C15": (PBT + "; reference timestamp model with civil-calendar arithmetic; independent text parser and binary codec; exact rounding oracle for sub-nanosecond fractions",
            "Exploration with an exhaustive calendar grid (8 years x every month boundary x 2 times x 8+ offsets x 13 fraction shapes x 5 precisions, ~50 000 cases) plus random timestamps, an enumerated list of impossible literals/binary tuples, and 10-30 digit fractions in both formats.",
            "Local year 1..9999. Ties within 0.001 ns of .5 are accepted either way in the sub-nanosecond check (the text path rounds through float64).",
            "DESIGN.md section 5, C15"),
    "C05": (PBT + " over generated stream histories and documents; round-trip oracle through the documented copy loop judged by the independent reference decoders (the copy must be self-contained and denote the same values, symbols by text)",
            "Exploration: 60 000 (source, catalog, destination mode) cases per quick run: 65% stream histories (version markers, replacing / appending tables, catalog imports, symbols by any ID carrying the text, $n in text), 35% plain documents of all types (reference printer / encoder spellings, ion-go writer output with shared tables) copied with the README loop into a text, pretty or binary writer; the reference decoder must accept the copy without any catalog and recover the values the source denotes.",
            "Symbols with unknown text are generated only as $0. Sources are accepted documents (the reference decoder's verdict, cross-checked by the generator). Trusts the reference decoders.",
            "DESIGN.md section 5, C05"),
    "C06": ("fuzzing / property-based testing with pgregory.net/rapid over grammar-aware hostile inputs + exhaustive enumeration of all inputs of length <= 2; validity oracle observed from outside an isolated worker process (recovered panics, process death, allocation and progress counters, wall-clock with solo re-run)",
            "Exploration with an exhaustive sub-grid: every byte string of length <= 2, bare and behind a version marker, under full traversal and Decoder.Decode (263 000 runs); every extreme-field token (lengths / IDs / exponents / years / offsets from 2^20 to 2^64-1) x 9 container wrappers x 5 programs; plus 24 000 generated (program, input) pairs per quick run: hostile symbol-table structs (typed nulls, huge / negative ints, wrong types in every slot), extreme text, the C07 edit catalogue, splices, random bytes; programs = full traversal, random navigation issued regardless of state, Decoder.Decode, Unmarshal into 32 target types, Decoder.DecodeTo.",
            "Inputs <= 64 KiB (nesting depth bounded by that). The allocation bound (1 MiB + 64 x len) is calibrated on valid documents, whose maximum is reported in evidence. A hang or death must reproduce on a solo re-run in a fresh process to count. Trusts the worker protocol, rapid, Go's runtime/metrics.",
            "DESIGN.md section 5, C06; section 11"),
    "C07": (PBT + "; differential oracle: an edited document is a case only if the independent strict reference decoder rejects it for a reason the property lists; then validity (Err non-nil, permanent) is checked on ion-go; exhaustive application of an edit catalogue at every position of ~60 base documents",
            "Exploration with an exhaustive sub-grid: ~60 small base documents (every type, both formats) x the whole edit catalogue (truncation / deletion / duplication at every offset, every byte replaced by a hostile alphabet incl. all L nibbles and calendar values, insertion of 27 malformed tokens at every text position) = ~10^5 reference-rejected documents per quick run, plus 80 000 random edits of larger generated documents; each must end a full traversal with Err() != nil, then 5 more Next() calls return false with the same Err().",
            "Not used as witnesses (counted as discarded): edits that leave the document valid, rejections the reference marks undecided (DESIGN 9.4), symbol-ID / import errors (C10), unsorted sorted-structs, malformed content *inside* a top-level symbol-table struct other than truncation (a reader may skip ignored fields unvalidated), binary offsets beyond 23:59, local year 0/10000. Trusts the reference decoders.",
            "DESIGN.md section 5, C07; section 9"),
    "C10": (PBT + " over generated stream histories (model-based generation: the generator keeps a running model of the symbol-ID space); reference-model oracle (independent reference decoders resolve the same bytes; cross-checked against the running model)",
            "Exploration: 60 000 generated histories per quick run (2-12 events: version markers, replacing tables with 0-2 imports resolved against a catalog holding the exact / a newer / an older / no version and max_id absent / 0 / exact / smaller / larger, appending tables, user values using any ID that carries the wanted text, placeholder slots, $0, table-shaped structs below top level), rendered in binary and in text with $n spellings; ion-go must return the reference resolution, the right number of user values, the right SymbolTable().MaxID() after every value, and an error exactly for an unresolvable import.",
            "Undefined local slots (null / null.string / non-string elements of symbols) and placeholder slots of imports occupy IDs and count towards MaxID but are never referenced by a user value: ion-go deliberately represents their text as \"\" (DESIGN 13.3), which the statement does not cover. Open content (also under field names without text) is generated in tables and import descriptors. Duplicate imports / symbols fields and typed nulls in table fields are not generated (C06). Trusts the reference decoders and the running model (which must agree, else exit 2).",
            "DESIGN.md section 5, C10; section 9.3"),
    "C11": (PBT + "; reference-decoder oracle over the emitted bytes (declared imports, ID minimality, local-symbol minimality, resolvability with and without the catalog) + writer-call outcome oracle for fixed tables",
            "Exploration: 48 000 (entry point, shared tables, fixed locals, values) cases per quick run over NewBinaryWriter(ssts), NewBinaryWriterLST, MarshalBinary(ssts) and MarshalBinaryLST with 0-3 shared tables (overlapping text, system-symbol text, Adjust-ed max_id), symbols drawn half from inside and half from outside the tables; the reference decoder checks imports (name, version, max_id, order), lowest-ID use, no redundant / duplicate / unused local symbol, decodability with and without the catalog and value equality (also through ion-go's reader with the catalog); for fixed tables the first call that consumes outside text must fail, all later calls fail, earlier ones succeed and the bytes hold exactly the completed values.",
            "The empty text is exempt from the by-name / minimality assertions (never indexed by name, by design). $n-shaped text is used for field names, annotations and WriteSymbol tokens, not through WriteSymbolFromString (which documents it as a symbol ID). A quarter of the writer cases hand over tokens that carry a symbol ID from an unrelated table next to their text (the text decides). Trusts the reference decoder.",
            "DESIGN.md section 5, C11"),
    "C16": (PBT + " over randomly assembled Go types (reflect.StructOf) and type-directed values; oracles: determinism, the independent reference decoders on MarshalText / MarshalBinary output against the harness's own reflection walk of the documented mapping, and the Marshal/Unmarshal round trip under semantic equality",
            "Exploration: 120 000 (type, value, by value / by pointer) cases per quick run: types assembled from every supported kind with nesting <= 4, embedded structs, tag options (rename, omitempty, -, symbol, clob, sexp, annotations wrapper), three declared shapes (embedded pointer, unexported embedded struct, named scalar types); values with boundary numbers per width, NaN / infinities, nil versus empty collections, nil / non-nil pointers, interfaces holding scalars / slices / maps, time.Time in UTC / named / unnamed zones. Checks MarshalText determinism, that text and binary output denote exactly the documented mapping (reference decoders), and that Unmarshal of each into the same type gives a semantically equal value.",
            "Semantic equality: NaN = NaN; a field holding a nil / empty collection and an absent field are interchangeable (omitempty), as are a pointer to a nil collection and a nil pointer; interface{} contents and time.Time are compared by denotation / instant. Outside omitempty fields and interfaces, nil versus empty is compared for every slice and map (Marshal writes null and [] / {} respectively, Unmarshal gives back nil and empty). Not generated: annotation wrappers around structs, maps or pointers and annotated nulls (outside the documented wrapper shapes), shadowed field names (ion-go panics by design), non-string map keys. Trusts the harness's reflection walk and the reference decoders.",
            "DESIGN.md section 5, C16"),
    "C17": (PBT + " + exhaustive (value exemplar x target type x format x entry point) matrix; reference conversion table with must-store / must-error / either verdicts as oracle, stored values described by the harness's own reflection walk",
            "Exploration with an exhaustive sub-grid: ~125 exemplar Ion values (29 integer boundaries to 2^128, every typed null, float32/64 boundaries, symbols with and without text, lobs, lists / sexps / structs incl. mixed and out-of-range elements) x 75 target types (every integer width, floats, string, []byte, [4]byte, Timestamp, time.Time, Decimal, big.Int, SymbolToken, interface{}, a non-empty interface, pointer / slice / array / map / struct / annotation-wrapper shapes) x {UnmarshalString text, Unmarshal binary, Decoder.DecodeTo} = ~30 000 cells, plus 40 000 random (value, target) pairs and 12 000 Decoder streams per quick run (n values in order, then ErrNoInput thrice).",
            "Verdict 'either' (error or the natural result, both accepted) is used for typed nulls leaving the zero value, surplus list elements / lob bytes for fixed-size arrays, float into Decimal, the case-insensitive field-name fallback and annotated structs into a wrapper. Trusts the conversion table and the reflection walk.",
            "DESIGN.md section 5, C17"),
    "C18": (PBT + " over generated multi-goroutine workloads run under the Go race detector (test binary built with -race, GORACE=halt_on_error=1); differential oracle: every operation's result in the concurrent run equals its result when its goroutine's script runs alone on fresh objects and fresh per-workload Go types",
            "Exploration with the race detector as monitor: per quick run 1000 generated workloads (2-32 goroutines x 1-8 operations over 15 operation kinds sharing three SharedSymbolTables, their Adjust-ed copies, a Catalog, the system table, one fixed local symbol table, a table whose SymbolTableBuilder keeps growing, a token list with spare capacity handed to Writer.Annotations, a document with two lobs above 64 KiB, one struct type, a per-workload fresh struct type and a per-workload annotation-wrapper type decoded from accepted and refused documents) plus every pair of operation kinds with two goroutines each; the concurrent phase runs first on fresh shared objects so lazily built state is built under contention; results must be byte-identical to each script run alone.",
            "Schedules are sampled, not enumerated: the race detector flags conflicting unsynchronised accesses that both occur in a run regardless of timing, but not a synchronised-yet-wrong ordering nor a race on a path no script executes. A race report is attributed to the workload in flight (written to a file before it starts). Trusts the Go race detector.",
            "DESIGN.md section 5, C18"),
    "C19": ("fault enumeration + property-based testing with pgregory.net/rapid: every single split point / every read-fault offset / every failing Write-call index enumerated for a fixed set of documents and call sequences, random plans elsewhere; metamorphic oracle (any delivery plan vs whole buffer) and validity oracles (fault reported, sticky, accepted bytes a prefix)",
            "Fault enumeration: for ~100 fixed documents (hand-written lookahead-hungry texts/binaries + deterministic generator examples) every split point x {EOF alone, EOF with data} x {full, container-skipping traversal}, and a read failure at every byte offset x {alone, with data} x {persistent, one-off} x {whole, byte-at-a-time} x six error values (a custom error, io.ErrUnexpectedEOF, io.ErrClosedPipe, os.ErrDeadlineExceeded, io.ErrNoProgress, a wrapped one); for 40 fixed call sequences x 4 writer configurations a write failure at every Write-call index x {nothing, half accepted} x {persistent, one-off}; plus ~17 000 random (document, plan) / (sequence, fault) cases per quick run including documents straddling bufio's 4096-byte buffer and corrupted documents.",
            "Faults are injected in the io.Reader / io.Writer the harness hands to ion-go (no hooks). A read plan returns at most one (0,nil) in a row. Every traversal keeps the slices and pointers the accessors returned and compares them with private copies at the end (a result must not change after further reading). One-off (transient) faults are part of the fault model: the reader/writer must still report them. Trusts the harness's plan reader / fault writer, rapid, Go.",
            "DESIGN.md section 5, C19"),
    "C20": (PBT + " driving the rebuilt ion-go binary as a subprocess; reference-decoder oracle on its output files (values for text / pretty / binary, an event-by-event walk of the input model for events) and a validity oracle (exit status, no panic text, error report entry for invalid input)",
            "Exploration with an enumerated grid: every type, every typed null and several container / annotation shapes, alone and together, in text and binary x 6 output formats x file input (stdin for every third), plus 400 generated documents (30% of the file-route ones with a second input file; 30% with output on stdout / report on stderr / long option names) per quick run (all types, spelling variety, local symbol tables, 20% invalid from the C07 catalogue) each through all six formats: ~3000 process runs.",
            "Process creation dominates the cost (about 10 ms per run on this sandbox), which bounds the quick tier; inputs whose validity the reference leaves undecided are judged for 'no crash' only. Trusts the reference decoders.",
            "DESIGN.md section 5, C20"),
}

PENDING_REASON = "check not built yet in this session (work in progress; see DESIGN.md section 8)"


def main():
    props = [json.loads(l) for l in open(os.path.join(ROOT, "properties.jsonl"))]
    checks, na = [], []
    for p in props:
        pid = p["id"]
        if pid in CLAIMED:
            tech, text, note, ref = CLAIMED[pid]
            checks.append({
                "property_id": pid,
                "quick_cmd": "./check %s quick" % pid,
                "thorough_cmd": "./check %s thorough" % pid,
                "evidence_file": "/verif/evidence/%s.json" % pid,
                "replay_cmd_template": "./check %s --replay {path}" % pid,
                "engine": "h",
                "level_claimed": {"category": "fault_enumeration" if pid == "C19" else "exploration", "text": text, "design_ref": ref},
                "level_note": note,
                "technique": tech,
            })
        else:
            na.append({"property_id": pid, "reason": NA.get(pid, PENDING_REASON)})
    m = {
        "version": 1,
        "setup_cmd": "./check setup",
        "hooks": {
            "guard": "verif",
            "enable": "go test -tags verif (the harness builds ion-go from /repo through a replace directive; no hook files exist, so the tag currently changes nothing)",
            "baseline_off_cmd": "cd /repo && GOFLAGS=-mod=mod GOPROXY=off GOSUMDB=off go test -vet=off -count=1 ./...",
            "source_commits": [],
            "add_only": True,
        },
        "engines": [{
            "name": "h",
            "path": "/verif/h",
            "serves_properties": sorted(CLAIMED),
            "kind_free_text": "Go module: spec-derived reference model / printers / parsers / encoders / decoders + rapid property checks + native fuzz targets; python driver ./check",
        }],
        "checks": checks,
        "notes": "All checks are property-based tests / fuzzing (pgregory.net/rapid v1.3.0, go test -fuzz) with explicit oracles; see DESIGN.md.",
        "not_applicable": na,
    }
    with open(os.path.join(ROOT, "MANIFEST.json"), "w") as f:
        json.dump(m, f, indent=1)
        f.write("\n")


NA = {}

if __name__ == "__main__":
    main()
