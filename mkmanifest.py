#!/usr/bin/env python3
"""Regenerates MANIFEST.json from the table below (kept next to the driver so the
two cannot drift)."""
import json, os

ROOT = os.path.dirname(os.path.abspath(__file__))

# id -> (technique, level text, level note, design ref)
CLAIMED = {
    "C14": ("property-based testing (rapid) + exhaustive small grids against an exact big-integer reference model",
            "Exploration: tens of thousands of generated (op, a, b, n) cases per run plus two exhaustive grids, each judged by exact scaled-integer arithmetic written independently of ion-go. Absence of a violation is evidence within the generated bounds, not a proof.",
            "Trusts math/big, the harness's own arithmetic, rapid. Exponent differences are bounded so exact rescaling is feasible; exponent -2^31 only in the String/Parse sub-check.",
            "DESIGN.md section 5, C14"),
}

PENDING_REASON = "check not built yet in this session (work in progress; see DESIGN.md section 8)"


def main():
    props = [json.loads(l) for l in open(os.path.join(ROOT, "properties.jsonl"))]
    checks, na = [], []
    for p in props:
        pid = p["id"]
        if pid in CLAIMED:
            tech, text, note, ref = CLAIMED[pid]
            checks.append({
                "property_id": pid,
                "quick_cmd": "./check %s quick" % pid,
                "thorough_cmd": "./check %s thorough" % pid,
                "evidence_file": "/verif/evidence/%s.json" % pid,
                "replay_cmd_template": "./check %s --replay {path}" % pid,
                "engine": "h",
                "level_claimed": {"category": "fault_enumeration" if pid == "C19" else "exploration", "text": text, "design_ref": ref},
                "level_note": note,
                "technique": tech,
            })
        else:
            na.append({"property_id": pid, "reason": NA.get(pid, PENDING_REASON)})
    m = {
        "version": 1,
        "setup_cmd": "./check setup",
        "hooks": {
            "guard": "verif",
            "enable": "go test -tags verif (the harness builds ion-go from /repo through a replace directive; no hook files exist, so the tag currently changes nothing)",
            "baseline_off_cmd": "cd /repo && GOFLAGS=-mod=mod GOPROXY=off GOSUMDB=off go test -vet=off -count=1 ./...",
            "source_commits": [],
            "add_only": True,
        },
        "engines": [{
            "name": "h",
            "path": "/verif/h",
            "serves_properties": sorted(CLAIMED),
            "kind_free_text": "Go module: spec-derived reference model / printers / parsers / encoders / decoders + rapid property checks + native fuzz targets; python driver ./check",
        }],
        "checks": checks,
        "notes": "All checks are property-based tests / fuzzing (pgregory.net/rapid v1.3.0, go test -fuzz) with explicit oracles; see DESIGN.md.",
        "not_applicable": na,
    }
    with open(os.path.join(ROOT, "MANIFEST.json"), "w") as f:
        json.dump(m, f, indent=1)
        f.write("\n")


NA = {}

if __name__ == "__main__":
    main()
