// Package gen holds the rapid generators shared by all checks. Every random
// choice is a rapid draw so shrinking and replay work.
package gen

import (
	"math"
	"math/big"
	"math/bits"
	"sync"
	"unicode/utf8"

	"pgregory.net/rapid"

	"verif/h/model"
)

// ---- exclusion switches for open known findings

var (
	exclMu    sync.Mutex
	excl      = map[string]bool{}
	exclCount = map[string]int{}
)

// SetExcluded replaces the set of excluded generator features.
func SetExcluded(keys []string) {
	exclMu.Lock()
	defer exclMu.Unlock()
	excl = map[string]bool{}
	for _, k := range keys {
		excl[k] = true
	}
}

// Excluded reports whether feature key is switched off (and counts the remap
// when wanted is true, i.e. the generator would have produced it).
func Excluded(key string, wanted bool) bool {
	exclMu.Lock()
	defer exclMu.Unlock()
	if !excl[key] {
		return false
	}
	if wanted {
		exclCount[key]++
	}
	return true
}

// ExcludedCounts returns a copy of the remap counters.
func ExcludedCounts() map[string]int {
	exclMu.Lock()
	defer exclMu.Unlock()
	out := map[string]int{}
	for k, v := range exclCount {
		out[k] = v
	}
	return out
}

// ---- small draw helpers

// Intn draws an int in [0,n), uniformly. rapid's own integer generators are
// deliberately biased towards small magnitudes (a geometric bit length), which
// makes "Chance(t, 5)" fire a third of the time and starves the tail of every
// Pick list; so the value is assembled from unbiased single bits (rapid.Bool),
// most significant first, with rejection. It still shrinks towards 0.
func Intn(t *rapid.T, n int) int {
	if n <= 1 {
		return 0
	}
	k := bits.Len(uint(n - 1))
	g := bitGens[k]
	for {
		v := 0
		for _, b := range g.Draw(t, "i") {
			v <<= 1
			if b {
				v |= 1
			}
		}
		if v < n {
			return v
		}
	}
}

var bitGens = func() []*rapid.Generator[[]bool] {
	out := make([]*rapid.Generator[[]bool], 65)
	for k := range out {
		out[k] = rapid.SliceOfN(rapid.Bool(), k, k)
	}
	return out
}()

// Range draws an int in [lo,hi], uniformly.
func Range(t *rapid.T, lo, hi int) int { return lo + Intn(t, hi-lo+1) }

// Chance is true with probability pct/100.
func Chance(t *rapid.T, pct int) bool { return Intn(t, 100) < pct }

// Pick draws one element.
func Pick[T any](t *rapid.T, xs []T) T { return xs[Intn(t, len(xs))] }

// Chooser is the source of representation decisions for the reference
// printer and encoder.
type Chooser interface {
	Intn(n int) int
}

// RapidChooser draws from rapid.
type RapidChooser struct{ T *rapid.T }

func (c RapidChooser) Intn(n int) int { return Intn(c.T, n) }

// Canonical always takes option 0.
type Canonical struct{}

func (Canonical) Intn(int) int { return 0 }

// BytesChooser reads choices from a byte string (native fuzzing); exhausted => 0.
type BytesChooser struct {
	B []byte
	I int
}

func (c *BytesChooser) Intn(n int) int {
	if n <= 1 || c.I >= len(c.B) {
		return 0
	}
	v := int(c.B[c.I])
	c.I++
	if n > 256 && c.I < len(c.B) {
		v = v<<8 | int(c.B[c.I])
		c.I++
	}
	return v % n
}

// ---- scalar pools

// BoundaryInts returns ±(2^k+d) for the listed k and d in -2..2.
func BoundaryInts() []*big.Int {
	var out []*big.Int
	ks := []int{}
	for k := 0; k <= 80; k++ {
		ks = append(ks, k)
	}
	ks = append(ks, 127, 128, 255, 256, 511, 512, 1023, 1024)
	seen := map[string]bool{}
	for _, k := range ks {
		p := new(big.Int).Lsh(big.NewInt(1), uint(k))
		for d := -2; d <= 2; d++ {
			v := new(big.Int).Add(p, big.NewInt(int64(d)))
			for _, s := range []int{1, -1} {
				x := new(big.Int).Set(v)
				if s < 0 {
					x.Neg(x)
				}
				if !seen[x.String()] {
					seen[x.String()] = true
					out = append(out, x)
				}
			}
		}
	}
	return out
}

var boundaryInts = BoundaryInts()

// BigInt draws an integer: boundary pool first, random second.
func BigInt(t *rapid.T) *big.Int {
	switch Intn(t, 10) {
	case 0, 1, 2, 3:
		return new(big.Int).Set(Pick(t, boundaryInts))
	case 4, 5, 6:
		return big.NewInt(int64(Range(t, -300, 300)))
	case 7:
		return big.NewInt(rapid.Int64().Draw(t, "i64"))
	case 8:
		u := rapid.Uint64().Draw(t, "u64")
		return new(big.Int).SetUint64(u)
	default:
		n := Range(t, 1, 256)
		bs := rapid.SliceOfN(rapid.Byte(), n, n).Draw(t, "mag")
		v := new(big.Int).SetBytes(bs)
		if Chance(t, 50) {
			v.Neg(v)
		}
		return v
	}
}

// IsBoundaryInt reports whether |v| is within 2 of a power of two >= 2^7.
func IsBoundaryInt(v *big.Int) bool {
	a := new(big.Int).Abs(v)
	if a.BitLen() < 7 {
		return false
	}
	for d := int64(-2); d <= 2; d++ {
		x := new(big.Int).Add(a, big.NewInt(d))
		if x.Sign() > 0 && x.BitLen() >= 8 && new(big.Int).And(x, new(big.Int).Sub(x, big.NewInt(1))).Sign() == 0 {
			return true
		}
	}
	return false
}

// FloatPool is the list of boundary floats.
var FloatPool = []float64{
	0, math.Copysign(0, -1), math.Inf(1), math.Inf(-1), math.NaN(),
	math.Float64frombits(0x7FF8000000000001), math.Float64frombits(0xFFF8000000000000), math.Float64frombits(0x7FF0000000000001),
	math.SmallestNonzeroFloat64, -math.SmallestNonzeroFloat64, math.MaxFloat64, -math.MaxFloat64,
	math.Float64frombits(0x0010000000000000), math.Float64frombits(0x000FFFFFFFFFFFFF),
	math.SmallestNonzeroFloat32, math.MaxFloat32, -math.MaxFloat32, float64(math.Float32frombits(0x00800000)),
	math.SmallestNonzeroFloat32 / 2, math.MaxFloat32 * (1 + 1.0/(1<<24)), math.MaxFloat32 * (1 + 1.0/(1<<23)),
	1 << 24, 1<<24 + 1, 1<<24 + 2, 1<<53 + 2, 1 << 53, 1.5, 0.1, 0.5, -2.5, 1e100, 1e-100, 1e22, 1e23, 123456789, 3.4028234663852886e38,
	1, -1, 10, 100, 1e7, 1e21, 1e-7, 1e-5, 5e-324, 1.7976931348623157e308, 0.3, 2.2250738585072014e-308,
}

// Float draws a float64.
func Float(t *rapid.T) float64 {
	switch Intn(t, 4) {
	case 0, 1:
		return Pick(t, FloatPool)
	case 2:
		return math.Float64frombits(rapid.Uint64().Draw(t, "fbits"))
	default:
		// float32-representable or neighbour
		f := float64(math.Float32frombits(rapid.Uint32().Draw(t, "f32")))
		if Chance(t, 30) && !math.IsNaN(f) && !math.IsInf(f, 0) {
			f = math.Float64frombits(math.Float64bits(f) + 1)
		}
		return f
	}
}

var decExps = []int64{0, 1, -1, 2, -2, 5, -5, 63, -63, 64, -64, 65, -65, 8191, -8191, 8192, -8192, 1 << 20, -(1 << 20), math.MaxInt32, -math.MaxInt32}

// Dec draws a decimal. Exponent stays within int32 (ion-go's documented range),
// and avoids math.MinInt32 (see DESIGN finding 23).
func Dec(t *rapid.T) model.Dec {
	var d model.Dec
	d.Coef = BigInt(t)
	switch Intn(t, 3) {
	case 0:
		d.Exp = Pick(t, decExps)
	case 1:
		d.Exp = int64(Range(t, -20, 20))
	default:
		d.Exp = int64(rapid.Int32Range(-math.MaxInt32, math.MaxInt32).Draw(t, "exp"))
	}
	if Chance(t, 8) {
		d.Coef = new(big.Int)
		d.NegZero = Chance(t, 60)
	}
	return d
}

// ---- timestamps

var tsYears = []int{1, 2, 4, 100, 400, 1582, 1900, 1969, 1970, 1999, 2000, 2023, 2024, 2038, 9998, 9999}
var tsOffsets = []int{1, -1, 59, 60, -60, 61, 330, -480, 719, 720, -720, 1380, 1439, -1439, -1380}

// TS draws a valid timestamp with local year in 1..9999.
func TS(t *rapid.T) model.TS {
	var ts model.TS
	ts.Prec = model.Prec(Intn(t, 5))
	if Chance(t, 35) {
		ts.Prec = model.PSecond
	}
	if Chance(t, 60) {
		ts.Year = Pick(t, tsYears)
	} else {
		ts.Year = Range(t, 1, 9999)
	}
	ts.Month, ts.Day = 1, 1
	if ts.Prec >= model.PMonth {
		ts.Month = Range(t, 1, 12)
		if Chance(t, 30) {
			ts.Month = Pick(t, []int{1, 2, 12})
		}
	}
	if ts.Prec >= model.PDay {
		dim := model.DaysInMonth(ts.Year, ts.Month)
		switch Intn(t, 3) {
		case 0:
			ts.Day = 1
		case 1:
			ts.Day = dim
		default:
			ts.Day = Range(t, 1, dim)
		}
	}
	if ts.Prec >= model.PMinute {
		ts.Hour = Pick(t, []int{0, 23, 12, Range(t, 0, 23)})
		ts.Min = Pick(t, []int{0, 59, Range(t, 0, 59)})
		switch Intn(t, 4) {
		case 0:
			ts.OffsetKnown = false
		case 1:
			ts.OffsetKnown = true
		case 2:
			ts.OffsetKnown, ts.Offset = true, Pick(t, tsOffsets)
		default:
			ts.OffsetKnown, ts.Offset = true, Range(t, -1439, 1439)
		}
	}
	if ts.Prec >= model.PSecond {
		ts.Sec = Pick(t, []int{0, 59, Range(t, 0, 59)})
		ts.FracDigits = Pick(t, []int{0, 0, 1, 2, 3, 6, 9, Range(t, 0, 9)})
		if ts.FracDigits > 0 {
			pow := 1
			for i := 0; i < ts.FracDigits; i++ {
				pow *= 10
			}
			var r int
			switch Intn(t, 5) {
			case 0:
				r = 0
			case 1:
				r = pow - 1
			case 2:
				r = 1
			case 3:
				r = pow / 10 // leading digit 1, trailing zeros
			default:
				r = Range(t, 0, pow-1)
			}
			scale := 1
			for i := ts.FracDigits; i < 9; i++ {
				scale *= 10
			}
			ts.Nanos = r * scale
		}
	}
	return ts
}

// ---- text

var specialRunes = []rune{0x00, 0x07, 0x08, 0x09, 0x0A, 0x0B, 0x0C, 0x0D, 0x1F, 0x7F, 0x80, 0x85, 0xA0, 0xFF,
	'"', '\'', '\\', '/', '?', '{', '}', '[', ']', '(', ')', ':', ',', '*', ' ',
	0x2028, 0x2029, 0xFEFF, 0xFFFD, 0xFFFF, 0xD7FF, 0xE000, 0x10000, 0x1F600, 0x10FFFF, 0x7FF, 0x800}

// Rune draws a valid Unicode scalar value.
func Rune(t *rapid.T) rune {
	switch Intn(t, 8) {
	case 0, 1, 2:
		return rune(Range(t, 0x20, 0x7E))
	case 3:
		return Pick(t, specialRunes)
	case 4:
		return rune(Range(t, 0, 0xFF))
	case 5:
		r := rune(Range(t, 0x100, 0xFFFF))
		if r >= 0xD800 && r <= 0xDFFF {
			r = 0xFFFD
		}
		return r
	case 6:
		return rune(Range(t, 0x10000, 0x10FFFF))
	default:
		return rune(Range(t, 'a', 'z'))
	}
}

// LenPool are the payload lengths the properties name.
var LenPool = []int{0, 1, 13, 14, 15, 127, 128, 129, 16383, 16384}

// Size limits generated payloads; Big permits the 16 KiB lengths.
type Size struct{ Big bool }

func drawLen(t *rapid.T, sz *Size) int {
	switch Intn(t, 10) {
	case 0:
		n := Pick(t, LenPool)
		if n > 200 {
			if sz == nil || !sz.Big {
				return Range(t, 120, 135)
			}
			sz.Big = false // at most one huge payload per document
		}
		return n
	case 1:
		return Range(t, 10, 20)
	default:
		return Range(t, 0, 8)
	}
}

// Text draws valid UTF-8 text.
func Text(t *rapid.T, sz *Size) string {
	n := drawLen(t, sz)
	if n > 200 {
		// long payload: mostly ASCII filler with a few interesting runes
		b := make([]byte, 0, n+4)
		for len(b) < n {
			if len(b)%97 == 0 {
				b = utf8.AppendRune(b, Rune(t))
			} else {
				b = append(b, byte('a'+len(b)%26))
			}
		}
		for !utf8.Valid(b[:n]) {
			n--
		}
		return string(b[:n])
	}
	b := make([]byte, 0, n+4)
	for len(b) < n {
		b = utf8.AppendRune(b, Rune(t))
	}
	return string(b)
}

// Bytes draws a lob payload.
func Bytes(t *rapid.T, sz *Size) []byte {
	n := drawLen(t, sz)
	if n > 200 {
		b := make([]byte, n)
		for i := range b {
			b[i] = byte(i * 7)
		}
		b[0], b[n-1] = byte(Intn(t, 256)), byte(Intn(t, 256))
		return b
	}
	return rapid.SliceOfN(rapid.Byte(), n, n).Draw(t, "lob")
}

var symPool = []string{
	"a", "b", "abc", "name", "version", "imports", "symbols", "max_id", "$ion", "$ion_symbol_table", "$ion_shared_symbol_table",
	"null", "true", "false", "nan", "null.int", "+inf", "inf", "_", "$", "$a", "a$b_1", "A9",
	"", " ", "+", "-", "++", "<=>", ".", "a b", "a.b", "1a", "'", "\"", "\\", "a'b", "//", "/*", "*/", "{{", "}}", "::", "a::b",
	"\n", "\t", "\x00", "é", "日本", "😀", " ",
}

// dollarPool are $n-shaped and version-marker-shaped texts.
var dollarPool = []string{"$0", "$1", "$5", "$9", "$10", "$99", "$99999999999", "$007", "$ion_1_0", "$ion_1_1", "$ion_2_0", "$ion_1_0_",
	"$0x0B", "$0b1011", "$1_0", "$1e3", "$10a", "$0x", "$_1", "$$1", "$ion_1_10", "$ion_10_0", "$ion_12_34", "$ion_1_0x",
	"$+5", "$-1", "$+0", "$9223372036854775807", "$9223372036854775808", "$99999999999999999999"}

// SymText draws symbol text (for symbol values, field names, annotations).
func SymText(t *rapid.T, sz *Size) string {
	switch Intn(t, 10) {
	case 0, 1, 2, 3, 4:
		return Pick(t, symPool)
	case 5:
		return Pick(t, dollarPool)
	case 6, 7:
		n := Range(t, 1, 6)
		b := make([]byte, n)
		for i := range b {
			b[i] = "abcxyz_$AZ019"[Intn(t, 13)]
		}
		if b[0] >= '0' && b[0] <= '9' {
			b[0] = 'q'
		}
		return string(b)
	default:
		return Text(t, sz)
	}
}

// Sym draws a symbol token: mostly known text, sometimes $0.
func Sym(t *rapid.T, sz *Size, allowUnknown bool) model.Sym {
	if allowUnknown && Chance(t, 4) {
		return model.Unknown
	}
	return model.S(SymText(t, sz))
}

// ---- values

// Cfg configures the value generator.
type Cfg struct {
	MaxDepth     int  // container nesting cap
	AllowUnknown bool // permit $0 symbols
	Size         *Size
	NoAnn        bool
}

// Value draws one Ion value.
func Value(t *rapid.T, c *Cfg) model.Value { return value(t, c, 0) }

func value(t *rapid.T, c *Cfg, depth int) model.Value {
	var v model.Value
	k := Intn(t, 16)
	if depth >= c.MaxDepth && k >= 10 {
		k = Intn(t, 10)
	}
	switch {
	case k <= 12:
		v.Kind = model.Kind(k)
	case k == 13:
		v.Kind = model.Int
	case k == 14:
		v.Kind = model.Struct
		if depth >= c.MaxDepth {
			v.Kind = model.String
		}
	default:
		v.Kind = model.Symbol
	}
	if !c.NoAnn && Chance(t, 20) {
		n := Pick(t, []int{1, 1, 1, 2, 3})
		for i := 0; i < n; i++ {
			v.Ann = append(v.Ann, Sym(t, c.Size, c.AllowUnknown))
		}
	}
	if v.Kind == model.Null || Chance(t, 7) {
		v.IsNull = true
		return v
	}
	switch v.Kind {
	case model.Bool:
		v.Bool = Chance(t, 50)
	case model.Int:
		v.Int = BigInt(t)
	case model.Float:
		v.Float = Float(t)
	case model.Decimal:
		v.Dec = Dec(t)
	case model.Timestamp:
		v.TS = TS(t)
	case model.Symbol:
		v.Sym = Sym(t, c.Size, c.AllowUnknown)
	case model.String:
		v.Text = Text(t, c.Size)
	case model.Clob, model.Blob:
		v.Bytes = Bytes(t, c.Size)
	case model.List, model.Sexp:
		n := childCount(t, depth)
		for i := 0; i < n; i++ {
			v.Elems = append(v.Elems, value(t, c, depth+1))
			if v.Kind == model.Sexp && Chance(t, 6) {
				// three values that, run together, would spell a typed null
				v.Elems = append(v.Elems, model.Value{Kind: model.Null, IsNull: true},
					model.Value{Kind: model.Symbol, Sym: model.S(".")},
					model.Value{Kind: model.Symbol, Sym: model.S(Pick(t, []string{"int", "null", "struct", "symbol", "bool", "x"}))})
			}
		}
	case model.Struct:
		n := childCount(t, depth)
		for i := 0; i < n; i++ {
			v.Fields = append(v.Fields, model.Field{Name: Sym(t, c.Size, c.AllowUnknown), Val: value(t, c, depth+1)})
		}
	}
	return v
}

func childCount(t *rapid.T, depth int) int {
	if depth >= 3 {
		return Intn(t, 3)
	}
	return Pick(t, []int{0, 1, 1, 2, 2, 3, 4, 6})
}

// Seq draws a top-level value sequence of 0..max values.
func Seq(t *rapid.T, c *Cfg, max int) []model.Value {
	n := Intn(t, max+1)
	out := make([]model.Value, 0, n)
	for i := 0; i < n; i++ {
		out = append(out, Value(t, c))
	}
	return SanitizeTop(out)
}

// Deep draws a value nested depth levels (list/sexp/struct chain) around a scalar.
func Deep(t *rapid.T, depth int) model.Value {
	v := model.Int64V(int64(depth))
	for i := 0; i < depth; i++ {
		switch Intn(t, 3) {
		case 0:
			v = model.ListV(v)
		case 1:
			v = model.SexpV(v)
		default:
			v = model.StructV(model.Field{Name: model.S("f"), Val: v})
		}
	}
	return v
}

// ---- top-level domain restrictions

var ivmShaped = func(s string) bool {
	// $ion_<digits>_<digits>
	if len(s) < 8 || s[:5] != "$ion_" {
		return false
	}
	rest := s[5:]
	i := 0
	for i < len(rest) && rest[i] >= '0' && rest[i] <= '9' {
		i++
	}
	if i == 0 || i >= len(rest) || rest[i] != '_' {
		return false
	}
	j := i + 1
	for j < len(rest) && rest[j] >= '0' && rest[j] <= '9' {
		j++
	}
	return j > i+1 && j == len(rest)
}

// IVMShaped reports whether s looks like an Ion version marker symbol.
func IVMShaped(s string) bool { return ivmShaped(s) }

// IsSystemValue reports whether a top-level value would be taken by Ion as a
// system value rather than user data: a struct (or null.struct) whose first
// annotation is $ion_symbol_table, or an unannotated symbol shaped like a
// version marker. Such values are outside every writer's user-value domain.
func IsSystemValue(v model.Value) bool {
	if v.Kind == model.Struct && len(v.Ann) > 0 && v.Ann[0].Known && v.Ann[0].Text == "$ion_symbol_table" {
		return true
	}
	// A symbol *value* whose text is shaped like a version marker ($ion_1_0,
	// $ion_1_10, $ion_12_34) is user data: text writers must and do quote it, the
	// reference printer quotes it, binary has no ambiguity. (Whether an *unquoted*
	// $ion_2_0 is a marker of an unsupported version is undecided, DESIGN 9.3; no
	// generator spells it that way.)
	return false
}

// SanitizeTop rewrites top-level system values into user values (prepends an
// annotation) so that sequences stay inside the user-value domain.
func SanitizeTop(vals []model.Value) []model.Value {
	for i := range vals {
		if IsSystemValue(vals[i]) {
			vals[i].Ann = append([]model.Sym{model.S("u")}, vals[i].Ann...)
		}
	}
	return vals
}
