// Package model is the harness's own Ion value model. It imports only the
// standard library and shares no code with ion-go.
package model

import (
	"bytes"
	"encoding/hex"
	"fmt"
	"hash/fnv"
	"math"
	"math/big"
	"sort"
	"strconv"
	"strings"
)

// Kind is an Ion type.
type Kind int

const (
	Null Kind = iota
	Bool
	Int
	Float
	Decimal
	Timestamp
	Symbol
	String
	Clob
	Blob
	List
	Sexp
	Struct
)

var kindNames = [...]string{"null", "bool", "int", "float", "decimal", "timestamp", "symbol", "string", "clob", "blob", "list", "sexp", "struct"}

func (k Kind) String() string {
	if int(k) < len(kindNames) {
		return kindNames[k]
	}
	return fmt.Sprintf("kind%d", int(k))
}

// IsContainer reports whether k is list, sexp or struct.
func (k Kind) IsContainer() bool { return k >= List }

// Sym is a symbol token: text, or unknown text (Known=false, e.g. $0).
type Sym struct {
	Text  string
	Known bool
}

// S makes a symbol with known text.
func S(text string) Sym { return Sym{Text: text, Known: true} }

// Unknown is the symbol with undefined text.
var Unknown = Sym{}

func (s Sym) String() string {
	if !s.Known {
		return "$0"
	}
	return strconv.Quote(s.Text)
}

// Dec is coefficient * 10^Exp; NegZero means -0 (Coef is then zero).
type Dec struct {
	Coef    *big.Int
	Exp     int64
	NegZero bool
}

// Prec is a timestamp precision.
type Prec int

const (
	PYear Prec = iota
	PMonth
	PDay
	PMinute
	PSecond
)

// TS is a timestamp as local civil fields. Nanos with FracDigits digits of
// fraction shown (0..9). Offset in minutes; OffsetKnown=false means -00:00.
// For PYear..PDay, OffsetKnown is false and Offset 0.
type TS struct {
	Year, Month, Day  int
	Hour, Min, Sec    int
	Nanos             int
	FracDigits        int
	Offset            int
	OffsetKnown       bool
	Prec              Prec
}

// Field is a struct field.
type Field struct {
	Name Sym
	Val  Value
}

// Value is one Ion value.
type Value struct {
	Kind   Kind
	IsNull bool
	Ann    []Sym

	Bool   bool
	Int    *big.Int
	Float  float64
	Dec    Dec
	TS     TS
	Text   string // string text
	Sym    Sym    // symbol value
	Bytes  []byte // lobs
	Elems  []Value
	Fields []Field
}

// ---- constructors

func NullOf(k Kind) Value           { return Value{Kind: k, IsNull: true} }
func BoolV(b bool) Value            { return Value{Kind: Bool, Bool: b} }
func IntV(i *big.Int) Value         { return Value{Kind: Int, Int: new(big.Int).Set(i)} }
func Int64V(i int64) Value          { return Value{Kind: Int, Int: big.NewInt(i)} }
func FloatV(f float64) Value        { return Value{Kind: Float, Float: f} }
func DecV(c *big.Int, e int64, nz bool) Value {
	return Value{Kind: Decimal, Dec: Dec{Coef: new(big.Int).Set(c), Exp: e, NegZero: nz}}
}
func TSV(t TS) Value                { return Value{Kind: Timestamp, TS: t} }
func SymV(s Sym) Value              { return Value{Kind: Symbol, Sym: s} }
func StrV(s string) Value           { return Value{Kind: String, Text: s} }
func ClobV(b []byte) Value          { return Value{Kind: Clob, Bytes: b} }
func BlobV(b []byte) Value          { return Value{Kind: Blob, Bytes: b} }
func ListV(e ...Value) Value        { return Value{Kind: List, Elems: e} }
func SexpV(e ...Value) Value        { return Value{Kind: Sexp, Elems: e} }
func StructV(f ...Field) Value      { return Value{Kind: Struct, Fields: f} }
func (v Value) WithAnn(a ...Sym) Value {
	v.Ann = append(append([]Sym{}, v.Ann...), a...)
	return v
}

// ---- equality (Ion data model)

// Equal reports data-model equality of two values.
func Equal(a, b Value) bool { return Diff(a, b) == "" }

// EqualSeq reports equality of two value sequences.
func EqualSeq(a, b []Value) bool { return DiffSeq(a, b) == "" }

// DiffSeq returns "" if equal, else a description of the first difference.
func DiffSeq(a, b []Value) string {
	if len(a) != len(b) {
		return fmt.Sprintf("length %d vs %d", len(a), len(b))
	}
	for i := range a {
		if d := Diff(a[i], b[i]); d != "" {
			return fmt.Sprintf("[%d]: %s", i, d)
		}
	}
	return ""
}

func symEq(a, b Sym) bool {
	if a.Known != b.Known {
		return false
	}
	return !a.Known || a.Text == b.Text
}

// Diff returns "" if equal, else a description of the first difference.
func Diff(a, b Value) string {
	if a.Kind != b.Kind {
		return fmt.Sprintf("kind %v vs %v", a.Kind, b.Kind)
	}
	if a.IsNull != b.IsNull {
		return fmt.Sprintf("null-ness %v vs %v (%v)", a.IsNull, b.IsNull, a.Kind)
	}
	if len(a.Ann) != len(b.Ann) {
		return fmt.Sprintf("annotation count %d vs %d", len(a.Ann), len(b.Ann))
	}
	for i := range a.Ann {
		if !symEq(a.Ann[i], b.Ann[i]) {
			return fmt.Sprintf("annotation %d: %v vs %v", i, a.Ann[i], b.Ann[i])
		}
	}
	if a.IsNull {
		return ""
	}
	switch a.Kind {
	case Null:
	case Bool:
		if a.Bool != b.Bool {
			return "bool differs"
		}
	case Int:
		if a.Int.Cmp(b.Int) != 0 {
			return fmt.Sprintf("int %v vs %v", a.Int, b.Int)
		}
	case Float:
		if math.IsNaN(a.Float) && math.IsNaN(b.Float) {
			return ""
		}
		if math.Float64bits(a.Float) != math.Float64bits(b.Float) {
			return fmt.Sprintf("float bits %016x vs %016x", math.Float64bits(a.Float), math.Float64bits(b.Float))
		}
	case Decimal:
		if a.Dec.NegZero != b.Dec.NegZero || a.Dec.Exp != b.Dec.Exp || a.Dec.Coef.Cmp(b.Dec.Coef) != 0 {
			return fmt.Sprintf("decimal %v vs %v", fmtDec(a.Dec), fmtDec(b.Dec))
		}
	case Timestamp:
		if a.TS.Canon() != b.TS.Canon() {
			return fmt.Sprintf("timestamp %+v vs %+v", a.TS.Canon(), b.TS.Canon())
		}
	case Symbol:
		if !symEq(a.Sym, b.Sym) {
			return fmt.Sprintf("symbol %v vs %v", a.Sym, b.Sym)
		}
	case String:
		if a.Text != b.Text {
			return fmt.Sprintf("string %q vs %q", trunc(a.Text), trunc(b.Text))
		}
	case Clob, Blob:
		if !bytes.Equal(a.Bytes, b.Bytes) {
			return fmt.Sprintf("lob bytes differ (%d vs %d bytes)", len(a.Bytes), len(b.Bytes))
		}
	case List, Sexp:
		if len(a.Elems) != len(b.Elems) {
			return fmt.Sprintf("%v length %d vs %d", a.Kind, len(a.Elems), len(b.Elems))
		}
		for i := range a.Elems {
			if d := Diff(a.Elems[i], b.Elems[i]); d != "" {
				return fmt.Sprintf("%v[%d]: %s", a.Kind, i, d)
			}
		}
	case Struct:
		if len(a.Fields) != len(b.Fields) {
			return fmt.Sprintf("struct field count %d vs %d", len(a.Fields), len(b.Fields))
		}
		for i := range a.Fields {
			if !symEq(a.Fields[i].Name, b.Fields[i].Name) {
				return fmt.Sprintf("field %d name %v vs %v", i, a.Fields[i].Name, b.Fields[i].Name)
			}
			if d := Diff(a.Fields[i].Val, b.Fields[i].Val); d != "" {
				return fmt.Sprintf("field %v: %s", a.Fields[i].Name, d)
			}
		}
	}
	return ""
}

func trunc(s string) string {
	if len(s) > 60 {
		return s[:60] + "..."
	}
	return s
}

func fmtDec(d Dec) string {
	if d.NegZero {
		return fmt.Sprintf("-0d%d", d.Exp)
	}
	return fmt.Sprintf("%vd%d", d.Coef, d.Exp)
}

// Canon normalises representation-only differences of a TS: fraction digits
// only at second precision; date-only precisions have no time or offset.
func (t TS) Canon() TS {
	switch t.Prec {
	case PYear:
		t.Month, t.Day = 1, 1
		fallthrough
	case PMonth:
		if t.Prec == PMonth {
			t.Day = 1
		}
		fallthrough
	case PDay:
		t.Hour, t.Min, t.Sec, t.Nanos, t.FracDigits, t.Offset, t.OffsetKnown = 0, 0, 0, 0, 0, 0, false
	case PMinute:
		t.Sec, t.Nanos, t.FracDigits = 0, 0, 0
	}
	if !t.OffsetKnown {
		t.Offset = 0
	}
	return t
}

// ---- rendering (for samples, replay files, digests). Not Ion text: an
// unambiguous debug form.

// String renders a value in a debug form.
func (v Value) String() string {
	var b strings.Builder
	v.render(&b)
	return b.String()
}

// SeqString renders a sequence.
func SeqString(vs []Value) string {
	var b strings.Builder
	for i, v := range vs {
		if i > 0 {
			b.WriteByte(' ')
		}
		v.render(&b)
		if b.Len() > 4000 {
			b.WriteString(" ...")
			break
		}
	}
	return b.String()
}

func (v Value) render(b *strings.Builder) {
	for _, a := range v.Ann {
		b.WriteString(a.String())
		b.WriteString("::")
	}
	if v.IsNull {
		b.WriteString("null." + v.Kind.String())
		return
	}
	switch v.Kind {
	case Null:
		b.WriteString("null")
	case Bool:
		fmt.Fprintf(b, "%v", v.Bool)
	case Int:
		s := v.Int.String()
		if len(s) > 50 {
			s = fmt.Sprintf("%s..(%d digits)", s[:20], len(s))
		}
		b.WriteString(s)
	case Float:
		fmt.Fprintf(b, "float(%016x)", math.Float64bits(v.Float))
	case Decimal:
		b.WriteString(fmtDec(v.Dec))
	case Timestamp:
		b.WriteString(v.TS.String())
	case Symbol:
		b.WriteString("sym(" + v.Sym.String() + ")")
	case String:
		if len(v.Text) > 80 {
			fmt.Fprintf(b, "str(%q..%d bytes)", v.Text[:40], len(v.Text))
		} else {
			b.WriteString(strconv.Quote(v.Text))
		}
	case Clob, Blob:
		if len(v.Bytes) > 40 {
			fmt.Fprintf(b, "%v(%s..%d bytes)", v.Kind, hex.EncodeToString(v.Bytes[:20]), len(v.Bytes))
		} else {
			fmt.Fprintf(b, "%v(%s)", v.Kind, hex.EncodeToString(v.Bytes))
		}
	case List, Sexp:
		o, c := "[", "]"
		if v.Kind == Sexp {
			o, c = "(", ")"
		}
		b.WriteString(o)
		for i, e := range v.Elems {
			if i > 0 {
				b.WriteString(", ")
			}
			e.render(b)
		}
		b.WriteString(c)
	case Struct:
		b.WriteString("{")
		for i, f := range v.Fields {
			if i > 0 {
				b.WriteString(", ")
			}
			b.WriteString(f.Name.String() + ": ")
			f.Val.render(b)
		}
		b.WriteString("}")
	}
}

func (t TS) String() string {
	off := "-00:00"
	if t.OffsetKnown {
		o := t.Offset
		sign := '+'
		if o < 0 {
			sign, o = '-', -o
		}
		off = fmt.Sprintf("%c%02d:%02d", sign, o/60, o%60)
	}
	switch t.Prec {
	case PYear:
		return fmt.Sprintf("%04dT", t.Year)
	case PMonth:
		return fmt.Sprintf("%04d-%02dT", t.Year, t.Month)
	case PDay:
		return fmt.Sprintf("%04d-%02d-%02dT", t.Year, t.Month, t.Day)
	case PMinute:
		return fmt.Sprintf("%04d-%02d-%02dT%02d:%02d%s", t.Year, t.Month, t.Day, t.Hour, t.Min, off)
	}
	frac := ""
	if t.FracDigits > 0 {
		frac = "." + fmt.Sprintf("%09d", t.Nanos)[:t.FracDigits]
		if rest := fmt.Sprintf("%09d", t.Nanos)[t.FracDigits:]; strings.Trim(rest, "0") != "" {
			frac += "(+" + rest + ")"
		}
	} else if t.Nanos != 0 {
		frac = fmt.Sprintf("(+%09d)", t.Nanos)
	}
	return fmt.Sprintf("%04d-%02d-%02dT%02d:%02d:%02d%s%s", t.Year, t.Month, t.Day, t.Hour, t.Min, t.Sec, frac, off)
}

// Digest is a 64-bit digest of a sequence under data-model equality
// (NaNs collapse).
func Digest(vs []Value) uint64 {
	h := fnv.New64a()
	for _, v := range vs {
		v.hash(h)
	}
	return h.Sum64()
}

type hasher interface{ Write([]byte) (int, error) }

func (v Value) hash(h hasher) {
	w := func(s string) { h.Write([]byte(s)); h.Write([]byte{0}) }
	for _, a := range v.Ann {
		w("a" + a.String())
	}
	w(v.Kind.String())
	if v.IsNull {
		w("N")
		return
	}
	switch v.Kind {
	case Bool:
		w(fmt.Sprint(v.Bool))
	case Int:
		w(v.Int.Text(16))
	case Float:
		if math.IsNaN(v.Float) {
			w("nan")
		} else {
			w(strconv.FormatUint(math.Float64bits(v.Float), 16))
		}
	case Decimal:
		w(fmtDec(v.Dec))
	case Timestamp:
		w(fmt.Sprintf("%+v", v.TS.Canon()))
	case Symbol:
		w(v.Sym.String())
	case String:
		w(v.Text)
	case Clob, Blob:
		h.Write(v.Bytes)
		w("")
	case List, Sexp:
		for _, e := range v.Elems {
			e.hash(h)
		}
		w("end")
	case Struct:
		for _, f := range v.Fields {
			w(f.Name.String())
			f.Val.hash(h)
		}
		w("end")
	}
}

// DigestBytes hashes raw bytes with a tag.
func DigestBytes(tag string, b []byte) uint64 {
	h := fnv.New64a()
	h.Write([]byte(tag))
	h.Write([]byte{0})
	h.Write(b)
	return h.Sum64()
}

// Depth returns the nesting depth (scalar = 0).
func (v Value) Depth() int {
	d := 0
	for _, e := range v.Elems {
		if x := e.Depth() + 1; x > d {
			d = x
		}
	}
	for _, f := range v.Fields {
		if x := f.Val.Depth() + 1; x > d {
			d = x
		}
	}
	if v.Kind.IsContainer() && !v.IsNull && d == 0 {
		d = 1
	}
	return d
}

// Walk calls fn for v and every descendant.
func (v Value) Walk(fn func(Value)) {
	fn(v)
	for _, e := range v.Elems {
		e.Walk(fn)
	}
	for _, f := range v.Fields {
		f.Val.Walk(fn)
	}
}

// SortedFieldsCopy returns a copy of struct v whose fields are stably sorted
// by name text (used to compare structs produced from Go maps).
func SortedFieldsCopy(v Value) Value {
	if v.Kind == Struct && !v.IsNull {
		fs := make([]Field, len(v.Fields))
		for i, f := range v.Fields {
			fs[i] = Field{f.Name, SortedFieldsCopy(f.Val)}
		}
		sort.SliceStable(fs, func(i, j int) bool { return fs[i].Name.String() < fs[j].Name.String() })
		v.Fields = fs
	} else if v.Kind == List || v.Kind == Sexp {
		es := make([]Value, len(v.Elems))
		for i, e := range v.Elems {
			es[i] = SortedFieldsCopy(e)
		}
		v.Elems = es
	}
	return v
}
