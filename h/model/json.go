package model

import (
	"encoding/json"
	"fmt"
	"math"
	"math/big"
	"strconv"
)

// JSON form used in replay and corpus files.

type jsonSym struct {
	T *string `json:"t,omitempty"`
}

type jsonField struct {
	N jsonSym   `json:"n"`
	V jsonValue `json:"v"`
}

type jsonValue struct {
	K      string      `json:"k"`
	Null   bool        `json:"null,omitempty"`
	Ann    []jsonSym   `json:"ann,omitempty"`
	Bool   *bool       `json:"bool,omitempty"`
	Int    *string     `json:"int,omitempty"`
	Float  *string     `json:"fbits,omitempty"`
	Coef   *string     `json:"coef,omitempty"`
	Exp    *int64      `json:"exp,omitempty"`
	NegZ   bool        `json:"negzero,omitempty"`
	TS     *TS         `json:"ts,omitempty"`
	Sym    *jsonSym    `json:"sym,omitempty"`
	Str    *string     `json:"str,omitempty"`
	Bytes  *[]byte     `json:"bytes,omitempty"`
	Elems  []jsonValue `json:"elems,omitempty"`
	Fields []jsonField `json:"fields,omitempty"`
}

func toJSym(s Sym) jsonSym {
	if !s.Known {
		return jsonSym{}
	}
	t := s.Text
	return jsonSym{T: &t}
}

func fromJSym(j jsonSym) Sym {
	if j.T == nil {
		return Unknown
	}
	return S(*j.T)
}

func toJSON(v Value) jsonValue {
	j := jsonValue{K: v.Kind.String(), Null: v.IsNull}
	for _, a := range v.Ann {
		j.Ann = append(j.Ann, toJSym(a))
	}
	if v.IsNull {
		return j
	}
	switch v.Kind {
	case Bool:
		b := v.Bool
		j.Bool = &b
	case Int:
		s := v.Int.String()
		j.Int = &s
	case Float:
		s := strconv.FormatUint(math.Float64bits(v.Float), 16)
		j.Float = &s
	case Decimal:
		s := v.Dec.Coef.String()
		e := v.Dec.Exp
		j.Coef, j.Exp, j.NegZ = &s, &e, v.Dec.NegZero
	case Timestamp:
		t := v.TS
		j.TS = &t
	case Symbol:
		s := toJSym(v.Sym)
		j.Sym = &s
	case String:
		s := v.Text
		j.Str = &s
	case Clob, Blob:
		b := append([]byte{}, v.Bytes...)
		j.Bytes = &b
	case List, Sexp:
		j.Elems = []jsonValue{}
		for _, e := range v.Elems {
			j.Elems = append(j.Elems, toJSON(e))
		}
	case Struct:
		j.Fields = []jsonField{}
		for _, f := range v.Fields {
			j.Fields = append(j.Fields, jsonField{toJSym(f.Name), toJSON(f.Val)})
		}
	}
	return j
}

func fromJSON(j jsonValue) (Value, error) {
	var v Value
	found := false
	for i, n := range kindNames {
		if n == j.K {
			v.Kind, found = Kind(i), true
		}
	}
	if !found {
		return v, fmt.Errorf("unknown kind %q", j.K)
	}
	v.IsNull = j.Null
	for _, a := range j.Ann {
		v.Ann = append(v.Ann, fromJSym(a))
	}
	if v.IsNull {
		return v, nil
	}
	switch v.Kind {
	case Null:
		v.IsNull = true
	case Bool:
		if j.Bool != nil {
			v.Bool = *j.Bool
		}
	case Int:
		v.Int = new(big.Int)
		if j.Int != nil {
			if _, ok := v.Int.SetString(*j.Int, 10); !ok {
				return v, fmt.Errorf("bad int %q", *j.Int)
			}
		}
	case Float:
		if j.Float != nil {
			u, err := strconv.ParseUint(*j.Float, 16, 64)
			if err != nil {
				return v, err
			}
			v.Float = math.Float64frombits(u)
		}
	case Decimal:
		v.Dec.Coef = new(big.Int)
		if j.Coef != nil {
			v.Dec.Coef.SetString(*j.Coef, 10)
		}
		if j.Exp != nil {
			v.Dec.Exp = *j.Exp
		}
		v.Dec.NegZero = j.NegZ
	case Timestamp:
		if j.TS != nil {
			v.TS = *j.TS
		}
	case Symbol:
		if j.Sym != nil {
			v.Sym = fromJSym(*j.Sym)
		}
	case String:
		if j.Str != nil {
			v.Text = *j.Str
		}
	case Clob, Blob:
		if j.Bytes != nil {
			v.Bytes = *j.Bytes
		}
	case List, Sexp:
		for _, e := range j.Elems {
			x, err := fromJSON(e)
			if err != nil {
				return v, err
			}
			v.Elems = append(v.Elems, x)
		}
	case Struct:
		for _, f := range j.Fields {
			x, err := fromJSON(f.V)
			if err != nil {
				return v, err
			}
			v.Fields = append(v.Fields, Field{fromJSym(f.N), x})
		}
	}
	return v, nil
}

// MarshalJSON implements json.Marshaler.
func (v Value) MarshalJSON() ([]byte, error) { return json.Marshal(toJSON(v)) }

// UnmarshalJSON implements json.Unmarshaler.
func (v *Value) UnmarshalJSON(b []byte) error {
	var j jsonValue
	if err := json.Unmarshal(b, &j); err != nil {
		return err
	}
	x, err := fromJSON(j)
	if err != nil {
		return err
	}
	*v = x
	return nil
}
