package model

// Civil-calendar arithmetic (proleptic Gregorian), written from the
// days-from-civil algorithm; does not use package time.

// IsLeap reports whether y is a leap year.
func IsLeap(y int) bool { return y%4 == 0 && (y%100 != 0 || y%400 == 0) }

// DaysInMonth returns the number of days in month m of year y.
func DaysInMonth(y, m int) int {
	switch m {
	case 1, 3, 5, 7, 8, 10, 12:
		return 31
	case 4, 6, 9, 11:
		return 30
	case 2:
		if IsLeap(y) {
			return 29
		}
		return 28
	}
	return 0
}

// DaysFromCivil returns days since 1970-01-01.
func DaysFromCivil(y, m, d int) int64 {
	yy := int64(y)
	if m <= 2 {
		yy--
	}
	var era int64
	if yy >= 0 {
		era = yy / 400
	} else {
		era = (yy - 399) / 400
	}
	yoe := yy - era*400
	mp := int64((m + 9) % 12)
	doy := (153*mp+2)/5 + int64(d) - 1
	doe := yoe*365 + yoe/4 - yoe/100 + doy
	return era*146097 + doe - 719468
}

// CivilFromDays is the inverse of DaysFromCivil.
func CivilFromDays(z int64) (y, m, d int) {
	z += 719468
	var era int64
	if z >= 0 {
		era = z / 146097
	} else {
		era = (z - 146096) / 146097
	}
	doe := z - era*146097
	yoe := (doe - doe/1460 + doe/36524 - doe/146096) / 365
	yy := yoe + era*400
	doy := doe - (365*yoe + yoe/4 - yoe/100)
	mp := (5*doy + 2) / 153
	d = int(doy - (153*mp+2)/5 + 1)
	if mp < 10 {
		m = int(mp + 3)
	} else {
		m = int(mp - 9)
	}
	if m <= 2 {
		yy++
	}
	return int(yy), m, d
}

// ShiftMinutes returns the civil date-time (y,m,d,h,mi) shifted by delta minutes.
func ShiftMinutes(y, m, d, h, mi int, delta int) (int, int, int, int, int) {
	total := DaysFromCivil(y, m, d)*1440 + int64(h*60+mi) + int64(delta)
	days := total / 1440
	rem := total % 1440
	if rem < 0 {
		rem += 1440
		days--
	}
	y, m, d = CivilFromDays(days)
	return y, m, d, int(rem / 60), int(rem % 60)
}

// UTCFields returns the UTC civil fields of t (for PMinute and finer; date-only
// precisions are returned unchanged).
func (t TS) UTCFields() (y, m, d, h, mi int) {
	if t.Prec < PMinute || !t.OffsetKnown || t.Offset == 0 {
		return t.Year, t.Month, t.Day, t.Hour, t.Min
	}
	return ShiftMinutes(t.Year, t.Month, t.Day, t.Hour, t.Min, -t.Offset)
}

// ValidFields reports whether the local fields of t are a real date/time.
func (t TS) ValidFields() bool {
	if t.Year < 1 || t.Year > 9999 {
		return false
	}
	if t.Prec >= PMonth && (t.Month < 1 || t.Month > 12) {
		return false
	}
	if t.Prec >= PDay && (t.Day < 1 || t.Day > DaysInMonth(t.Year, t.Month)) {
		return false
	}
	if t.Prec >= PMinute {
		if t.Hour < 0 || t.Hour > 23 || t.Min < 0 || t.Min > 59 {
			return false
		}
		if t.OffsetKnown && (t.Offset <= -1440 || t.Offset >= 1440) {
			return false
		}
	}
	if t.Prec >= PSecond {
		if t.Sec < 0 || t.Sec > 59 || t.Nanos < 0 || t.Nanos > 999999999 || t.FracDigits < 0 || t.FracDigits > 9 {
			return false
		}
	}
	return true
}
