module verif/h

go 1.23

require (
	github.com/amzn/ion-go v0.0.0
	pgregory.net/rapid v1.3.0
)

replace github.com/amzn/ion-go => /repo
