// Package drive adapts ion-go's public API to the harness model. It is the only
// non-test package that imports ion-go.
package drive

import (
	"fmt"
	"math/big"
	"runtime/debug"

	"github.com/amzn/ion-go/ion"

	"verif/h/model"
)

// PanicError wraps a recovered panic.
type PanicError struct {
	Val   interface{}
	Stack string
}

func (p *PanicError) Error() string { return fmt.Sprintf("PANIC: %v\n%s", p.Val, p.Stack) }

// Guard runs fn and converts a panic into *PanicError.
func Guard(fn func() error) (err error) {
	defer func() {
		if r := recover(); r != nil {
			err = &PanicError{Val: r, Stack: string(debug.Stack())}
		}
	}()
	return fn()
}

// KindOf maps an ion type to a model kind.
func KindOf(t ion.Type) (model.Kind, bool) {
	switch t {
	case ion.NullType:
		return model.Null, true
	case ion.BoolType:
		return model.Bool, true
	case ion.IntType:
		return model.Int, true
	case ion.FloatType:
		return model.Float, true
	case ion.DecimalType:
		return model.Decimal, true
	case ion.TimestampType:
		return model.Timestamp, true
	case ion.SymbolType:
		return model.Symbol, true
	case ion.StringType:
		return model.String, true
	case ion.ClobType:
		return model.Clob, true
	case ion.BlobType:
		return model.Blob, true
	case ion.ListType:
		return model.List, true
	case ion.SexpType:
		return model.Sexp, true
	case ion.StructType:
		return model.Struct, true
	}
	return 0, false
}

// TypeOf maps a model kind to an ion type.
func TypeOf(k model.Kind) ion.Type {
	return [...]ion.Type{ion.NullType, ion.BoolType, ion.IntType, ion.FloatType, ion.DecimalType,
		ion.TimestampType, ion.SymbolType, ion.StringType, ion.ClobType, ion.BlobType,
		ion.ListType, ion.SexpType, ion.StructType}[k]
}

// SymOf converts a token.
func SymOf(t *ion.SymbolToken) model.Sym {
	if t == nil || t.Text == nil {
		return model.Unknown
	}
	return model.S(*t.Text)
}

// TSOf converts an ion timestamp to the model via its public getters.
func TSOf(ts ion.Timestamp) model.TS {
	dt := ts.GetDateTime()
	_, off := dt.Zone()
	t := model.TS{
		Year: dt.Year(), Month: int(dt.Month()), Day: dt.Day(),
		Hour: dt.Hour(), Min: dt.Minute(), Sec: dt.Second(), Nanos: dt.Nanosecond(),
	}
	switch ts.GetPrecision() {
	case ion.TimestampPrecisionYear:
		t.Prec = model.PYear
	case ion.TimestampPrecisionMonth:
		t.Prec = model.PMonth
	case ion.TimestampPrecisionDay:
		t.Prec = model.PDay
	case ion.TimestampPrecisionMinute:
		t.Prec = model.PMinute
	case ion.TimestampPrecisionSecond:
		t.Prec = model.PSecond
	case ion.TimestampPrecisionNanosecond:
		t.Prec = model.PSecond
		t.FracDigits = int(ts.GetNumberOfFractionalSeconds())
	default:
		t.Prec = model.Prec(99)
	}
	if t.Prec >= model.PMinute {
		t.OffsetKnown = ts.GetTimezoneKind() != ion.TimezoneUnspecified
		t.Offset = off / 60
		if off%60 != 0 {
			t.Offset = 1 << 20 // impossible; shows up as a difference
		}
		if !t.OffsetKnown && off != 0 {
			t.Offset = 1<<20 + off // unknown offset must carry UTC fields
			t.OffsetKnown = true
		}
	} else if off != 0 {
		t.Prec = model.Prec(98)
	}
	return t
}

// ObserveOpts tunes the observer.
type ObserveOpts struct {
	// CrossCheck additionally calls every wrong-type accessor on each scalar
	// and checks it is refused (used by C13); zero value = off.
	CrossCheck bool
}

// Holder keeps what the accessors returned (the slices and pointers themselves)
// next to a private copy taken at once; Check, called after further reading,
// reports a result that changed afterwards: a caller may keep what it was given
// (Unmarshal stores the []byte of a blob in the target as it is).
type Holder struct {
	items []heldItem
	bytes int
}

type heldItem struct {
	what string
	now  func() string
	then string
}

func (h *Holder) hold(what string, now func() string) {
	if h == nil || len(h.items) >= 2048 {
		return
	}
	h.items = append(h.items, heldItem{what, now, now()})
}

func (h *Holder) holdBytes(p []byte) {
	if h == nil || len(p) == 0 || h.bytes+len(p) > 4<<20 {
		return
	}
	h.bytes += len(p)
	h.hold("ByteValue", func() string { return string(p) })
}

// Check compares every held result with its copy.
func (h *Holder) Check() error {
	if h == nil {
		return nil
	}
	for i, it := range h.items {
		if got := it.now(); got != it.then {
			return fmt.Errorf("the result of %s (held result %d of %d) changed after further reading: it was %s and is now %s", it.what, i+1, len(h.items), clipS(it.then), clipS(got))
		}
	}
	return nil
}

func clipS(s string) string {
	if len(s) > 120 {
		return fmt.Sprintf("%q... (%d bytes)", s[:120], len(s))
	}
	return fmt.Sprintf("%q", s)
}

// Observe fully traverses r and returns the values seen and the terminal error
// (r.Err() or an accessor error). A panic is returned as *PanicError.
func Observe(r ion.Reader) (vals []model.Value, err error) {
	err = Guard(func() error {
		var e error
		h := &Holder{}
		vals, e = observeSeq(r, h)
		if e != nil {
			return e
		}
		if e = r.Err(); e != nil {
			return e
		}
		return h.Check()
	})
	return
}

func observeSeq(r ion.Reader, h *Holder) ([]model.Value, error) {
	var out []model.Value
	for r.Next() {
		v, err := ObserveCurrentH(r, h)
		if err != nil {
			return out, err
		}
		out = append(out, v)
	}
	return out, r.Err()
}

// ObserveFields is observeSeq for struct members.
func observeFields(r ion.Reader, h *Holder) ([]model.Field, error) {
	var out []model.Field
	for r.Next() {
		fn, err := r.FieldName()
		if err != nil {
			return out, fmt.Errorf("FieldName: %w", err)
		}
		if fn == nil {
			return out, fmt.Errorf("harness: FieldName() is nil inside a struct")
		}
		if !r.IsInStruct() {
			return out, fmt.Errorf("harness: IsInStruct() false inside a struct")
		}
		h.hold("FieldName", func() string { return SymOf(fn).String() })
		v, err := ObserveCurrentH(r, h)
		if err != nil {
			return out, err
		}
		out = append(out, model.Field{Name: SymOf(fn), Val: v})
	}
	return out, r.Err()
}

// ObserveCurrent reads the value the reader is positioned on (recursing into
// containers and stepping back out).
func ObserveCurrent(r ion.Reader) (model.Value, error) { return ObserveCurrentH(r, nil) }

// ObserveCurrentH is ObserveCurrent that also records the raw results in h.
func ObserveCurrentH(r ion.Reader, h *Holder) (model.Value, error) {
	var v model.Value
	k, ok := KindOf(r.Type())
	if !ok {
		return v, fmt.Errorf("harness: Next()==true but Type()==%v", r.Type())
	}
	v.Kind = k
	as, err := r.Annotations()
	if err != nil {
		return v, fmt.Errorf("Annotations: %w", err)
	}
	for i := range as {
		v.Ann = append(v.Ann, SymOf(&as[i]))
	}
	if len(as) > 0 {
		h.hold("Annotations", func() string { return fmt.Sprint(len(as), SymOf(&as[0]), SymOf(&as[len(as)-1])) })
	}
	v.IsNull = r.IsNull()
	if k == model.Null {
		// the untyped null is represented as Null kind, IsNull true
		if !v.IsNull {
			return v, fmt.Errorf("harness: NullType value with IsNull()==false")
		}
		return v, nil
	}
	switch k {
	case model.Bool:
		p, err := r.BoolValue()
		if err != nil {
			return v, fmt.Errorf("BoolValue: %w", err)
		}
		if (p == nil) != v.IsNull {
			return v, fmt.Errorf("harness: BoolValue nil-ness %v but IsNull %v", p == nil, v.IsNull)
		}
		if p != nil {
			v.Bool = *p
		}
	case model.Int:
		p, err := r.BigIntValue()
		if err != nil {
			return v, fmt.Errorf("BigIntValue: %w", err)
		}
		if (p == nil) != v.IsNull {
			return v, fmt.Errorf("harness: BigIntValue nil-ness %v but IsNull %v", p == nil, v.IsNull)
		}
		if p != nil {
			v.Int = new(big.Int).Set(p)
			h.hold("BigIntValue", func() string { return p.String() })
		}
	case model.Float:
		p, err := r.FloatValue()
		if err != nil {
			return v, fmt.Errorf("FloatValue: %w", err)
		}
		if (p == nil) != v.IsNull {
			return v, fmt.Errorf("harness: FloatValue nil-ness %v but IsNull %v", p == nil, v.IsNull)
		}
		if p != nil {
			v.Float = *p
		}
	case model.Decimal:
		p, err := r.DecimalValue()
		if err != nil {
			return v, fmt.Errorf("DecimalValue: %w", err)
		}
		if (p == nil) != v.IsNull {
			return v, fmt.Errorf("harness: DecimalValue nil-ness %v but IsNull %v", p == nil, v.IsNull)
		}
		if p != nil {
			v.Dec = DecOf(p)
			h.hold("DecimalValue", func() string { return p.String() })
		}
	case model.Timestamp:
		p, err := r.TimestampValue()
		if err != nil {
			return v, fmt.Errorf("TimestampValue: %w", err)
		}
		if (p == nil) != v.IsNull {
			return v, fmt.Errorf("harness: TimestampValue nil-ness %v but IsNull %v", p == nil, v.IsNull)
		}
		if p != nil {
			v.TS = TSOf(*p)
			h.hold("TimestampValue", func() string { return p.String() })
		}
	case model.Symbol:
		p, err := r.SymbolValue()
		if err != nil {
			return v, fmt.Errorf("SymbolValue: %w", err)
		}
		if (p == nil) != v.IsNull {
			return v, fmt.Errorf("harness: SymbolValue nil-ness %v but IsNull %v", p == nil, v.IsNull)
		}
		if p != nil {
			v.Sym = SymOf(p)
			h.hold("SymbolValue", func() string { return SymOf(p).String() })
		}
	case model.String:
		p, err := r.StringValue()
		if err != nil {
			return v, fmt.Errorf("StringValue: %w", err)
		}
		if (p == nil) != v.IsNull {
			return v, fmt.Errorf("harness: StringValue nil-ness %v but IsNull %v", p == nil, v.IsNull)
		}
		if p != nil {
			v.Text = *p
			h.hold("StringValue", func() string { return *p })
		}
	case model.Clob, model.Blob:
		p, err := r.ByteValue()
		if err != nil {
			return v, fmt.Errorf("ByteValue: %w", err)
		}
		if p != nil && v.IsNull {
			return v, fmt.Errorf("harness: ByteValue non-nil but IsNull")
		}
		v.Bytes = append([]byte{}, p...)
		h.holdBytes(p)
	case model.List, model.Sexp, model.Struct:
		if v.IsNull {
			return v, nil
		}
		if err := r.StepIn(); err != nil {
			return v, fmt.Errorf("StepIn: %w", err)
		}
		if k == model.Struct {
			fs, err := observeFields(r, h)
			v.Fields = fs
			if err != nil {
				return v, err
			}
		} else {
			es, err := observeSeq(r, h)
			v.Elems = es
			if err != nil {
				return v, err
			}
		}
		if err := r.StepOut(); err != nil {
			return v, fmt.Errorf("StepOut: %w", err)
		}
	}
	return v, nil
}

// DecOf converts an ion decimal to the model via CoEx and String (the only
// public view of negative zero is the text form).
func DecOf(d *ion.Decimal) model.Dec {
	c, e := d.CoEx()
	nz := false
	if c.Sign() == 0 {
		s := d.String()
		nz = len(s) > 0 && s[0] == '-'
	}
	return model.Dec{Coef: new(big.Int).Set(c), Exp: int64(e), NegZero: nz}
}

// Guard2 runs fn and converts a panic into a failure message.
func Guard2(fn func() string) (msg string) {
	defer func() {
		if r := recover(); r != nil {
			msg = fmt.Sprintf("PANIC: %v\n%s", r, debug.Stack())
		}
	}()
	return fn()
}

// Observe2 is Observe for a reader whose construction may itself read (and
// panic): mk runs under the same guard.
func Observe2(mk func() ion.Reader) (vals []model.Value, err error) {
	err = Guard(func() error {
		r := mk()
		var e error
		h := &Holder{}
		vals, e = observeSeq(r, h)
		if e != nil {
			return e
		}
		if e = r.Err(); e != nil {
			return e
		}
		return h.Check()
	})
	return
}

// ObserveShallow traverses only the top level: scalars are read, containers
// are skipped by Next without stepping in (their content is not observed).
func ObserveShallow(mk func() ion.Reader) (vals []model.Value, err error) {
	err = Guard(func() error {
		r := mk()
		for r.Next() {
			k, ok := KindOf(r.Type())
			if !ok {
				return fmt.Errorf("harness: Next()==true but Type()==%v", r.Type())
			}
			if k == model.List || k == model.Sexp || k == model.Struct {
				v := model.Value{Kind: k, IsNull: r.IsNull()}
				as, err := r.Annotations()
				if err != nil {
					return fmt.Errorf("Annotations: %w", err)
				}
				for i := range as {
					v.Ann = append(v.Ann, SymOf(&as[i]))
				}
				vals = append(vals, v)
				continue
			}
			v, err := ObserveCurrent(r)
			if err != nil {
				return err
			}
			vals = append(vals, v)
		}
		return r.Err()
	})
	return
}

// ReadScalar calls the accessor matching the current type and IntSize for ints,
// discarding the results (C06: must not panic).
func ReadScalar(r ion.Reader) {
	switch r.Type() {
	case ion.BoolType:
		r.BoolValue()
	case ion.IntType:
		r.IntSize()
		r.BigIntValue()
		r.Int64Value()
		r.IntValue()
	case ion.FloatType:
		r.FloatValue()
	case ion.DecimalType:
		if d, _ := r.DecimalValue(); d != nil {
			_ = d.String()
		}
	case ion.TimestampType:
		if t, _ := r.TimestampValue(); t != nil {
			_ = t.String()
		}
	case ion.SymbolType:
		r.SymbolValue()
	case ion.StringType:
		r.StringValue()
	case ion.ClobType, ion.BlobType:
		r.ByteValue()
	}
}

// Navigate interprets prog as a sequence of Reader calls (one byte per call,
// modulo the number of operations), ignoring every result; returns the number of
// successful Next calls. Calls are issued regardless of state: after errors, at
// the end of the stream, on the wrong type.
func Navigate(r ion.Reader, prog []byte) int {
	n := 0
	for _, op := range prog {
		switch op % 22 {
		case 0, 1, 2, 3, 4:
			if r.Next() {
				n++
			}
		case 5, 6:
			r.StepIn()
		case 7:
			r.StepOut()
		case 8:
			r.Type()
			r.IsNull()
		case 9:
			r.FieldName()
			r.Annotations()
		case 10:
			r.BoolValue()
		case 11:
			r.IntSize()
			r.IntValue()
		case 12:
			r.Int64Value()
			r.BigIntValue()
		case 13:
			r.FloatValue()
		case 14:
			r.DecimalValue()
		case 15:
			r.TimestampValue()
		case 16:
			r.SymbolValue()
		case 17:
			r.StringValue()
		case 18:
			r.ByteValue()
		case 19:
			r.IsInStruct()
			r.SymbolTable()
		case 20:
			r.Err()
		case 21:
			ReadScalar(r)
		}
	}
	return n
}
