package drive

import (
	"fmt"
	"math"
	"math/big"
	"reflect"
	"sort"
	"strings"
	"time"

	"github.com/amzn/ion-go/ion"

	"verif/h/model"
)

// TypeDesc describes a Go type built from the kinds Marshal supports. It is
// serialisable so that a failing case can be replayed.
type TypeDesc struct {
	// K: bool int int8 int16 int32 int64 uint uint8 uint16 uint32 uint64 uintptr
	// float32 float64 string bytes slice array map ptr iface struct timestamp time
	// decimal bigint, or "static:<name>" for a declared type.
	K      string      `json:"k"`
	Elem   *TypeDesc   `json:"elem,omitempty"`
	N      int         `json:"n,omitempty"` // array length
	Fields []FieldDesc `json:"fields,omitempty"`
}

// FieldDesc is one struct field.
type FieldDesc struct {
	Name     string   `json:"name"` // exported Go name
	Tag      string   `json:"tag,omitempty"`
	T        TypeDesc `json:"t"`
	Embedded bool     `json:"embedded,omitempty"`
}

// GoVal is a serialisable Go value for a TypeDesc.
type GoVal struct {
	Nil   bool       `json:"nil,omitempty"`
	Bool  bool       `json:"bool,omitempty"`
	Int   string     `json:"int,omitempty"` // decimal text (ints, uints, big.Int)
	F     uint64     `json:"f,omitempty"`   // float64 bits
	S     string     `json:"s,omitempty"`
	B     []byte     `json:"b,omitempty"`
	Elems []GoVal    `json:"elems,omitempty"`
	Keys  []string   `json:"keys,omitempty"` // map keys, parallel to Elems
	TS    *model.TS  `json:"ts,omitempty"`
	Zone  string     `json:"zone,omitempty"` // time.Time: "" => unnamed fixed zone, "UTC", or a zone name
	Dec   *model.Dec `json:"dec,omitempty"`
	Dyn   *TypeDesc  `json:"dyn,omitempty"` // interface: dynamic type of the value held
	Ann   []string   `json:"ann,omitempty"` // annotations field of a wrapper struct
}

var scalarTypes = map[string]reflect.Type{
	"bool": reflect.TypeOf(false), "int": reflect.TypeOf(int(0)), "int8": reflect.TypeOf(int8(0)), "int16": reflect.TypeOf(int16(0)),
	"int32": reflect.TypeOf(int32(0)), "int64": reflect.TypeOf(int64(0)), "uint": reflect.TypeOf(uint(0)), "uint8": reflect.TypeOf(uint8(0)),
	"uint16": reflect.TypeOf(uint16(0)), "uint32": reflect.TypeOf(uint32(0)), "uint64": reflect.TypeOf(uint64(0)), "uintptr": reflect.TypeOf(uintptr(0)),
	"float32": reflect.TypeOf(float32(0)), "float64": reflect.TypeOf(float64(0)), "string": reflect.TypeOf(""), "bytes": reflect.TypeOf([]byte(nil)),
	"timestamp": reflect.TypeOf(ion.Timestamp{}), "time": reflect.TypeOf(time.Time{}), "decimal": reflect.TypeOf(ion.Decimal{}), "bigint": reflect.TypeOf(big.Int{}),
	"iface": reflect.TypeOf((*interface{})(nil)).Elem(), "anntokens": reflect.TypeOf([]ion.SymbolToken(nil)),
	"symtok": reflect.TypeOf(ion.SymbolToken{}), "stringer": reflect.TypeOf((*fmt.Stringer)(nil)).Elem(),
}

var (
	timestampT = reflect.TypeOf(ion.Timestamp{})
	timeT      = reflect.TypeOf(time.Time{})
	decimalT   = reflect.TypeOf(ion.Decimal{})
	bigIntT    = reflect.TypeOf(big.Int{})
	symTokT    = reflect.TypeOf(ion.SymbolToken{})
	symToksT   = reflect.TypeOf([]ion.SymbolToken(nil))
)

// ---- statically declared shapes reflect.StructOf cannot build

// EmbInner is embedded by pointer / by value in the static shapes.
type EmbInner struct {
	X int    `ion:"x"`
	Y string `ion:"y,omitempty"`
}

type unexportedEmb struct {
	Visible int
	hidden  int
}

// StaticPtrEmbed embeds a pointer to a struct.
type StaticPtrEmbed struct {
	*EmbInner
	Z int
}

// StaticUnexportedEmbed embeds an unexported struct type with an exported field.
type StaticUnexportedEmbed struct {
	unexportedEmb
	W string
}

// StaticNamed uses named scalar and slice types.
type StaticNamed struct {
	N MyInt
	S MyStr `ion:",symbol"`
	L MyList
	B MyBytes `ion:",clob"`
}

type MyInt int32
type MyStr string
type MyList []MyInt
type MyBytes []byte

var staticTypes = map[string]reflect.Type{
	"ptrembed":        reflect.TypeOf(StaticPtrEmbed{}),
	"unexportedembed": reflect.TypeOf(StaticUnexportedEmbed{}),
	"named":           reflect.TypeOf(StaticNamed{}),
}

// StaticDescs describe the static shapes field by field (for value generation).
var StaticDescs = map[string]TypeDesc{
	"ptrembed": {K: "static:ptrembed", Fields: []FieldDesc{
		{Name: "EmbInner", Embedded: true, T: TypeDesc{K: "ptr", Elem: &TypeDesc{K: "struct", Fields: []FieldDesc{{Name: "X", Tag: "x", T: TypeDesc{K: "int"}}, {Name: "Y", Tag: "y,omitempty", T: TypeDesc{K: "string"}}}}}},
		{Name: "Z", T: TypeDesc{K: "int"}}}},
	"unexportedembed": {K: "static:unexportedembed", Fields: []FieldDesc{
		{Name: "unexportedEmb", Embedded: true, T: TypeDesc{K: "struct", Fields: []FieldDesc{{Name: "Visible", T: TypeDesc{K: "int"}}}}},
		{Name: "W", T: TypeDesc{K: "string"}}}},
	"named": {K: "static:named", Fields: []FieldDesc{
		{Name: "N", T: TypeDesc{K: "int32"}}, {Name: "S", Tag: ",symbol", T: TypeDesc{K: "string"}},
		{Name: "L", T: TypeDesc{K: "slice", Elem: &TypeDesc{K: "int32"}}}, {Name: "B", Tag: ",clob", T: TypeDesc{K: "bytes"}}}},
}

// GoType builds the reflect.Type of d.
func GoType(d TypeDesc) reflect.Type {
	if t, ok := scalarTypes[d.K]; ok {
		return t
	}
	if strings.HasPrefix(d.K, "static:") {
		return staticTypes[d.K[7:]]
	}
	switch d.K {
	case "slice":
		return reflect.SliceOf(GoType(*d.Elem))
	case "array":
		return reflect.ArrayOf(d.N, GoType(*d.Elem))
	case "map":
		return reflect.MapOf(reflect.TypeOf(""), GoType(*d.Elem))
	case "ptr":
		return reflect.PtrTo(GoType(*d.Elem))
	case "ifaceptr", "ifacenil":
		// ifacenil: an interface{} target that holds a typed nil pointer to Elem
		// an interface{} target that already holds a pointer to a (zero) Elem
		return scalarTypes["iface"]
	case "struct":
		var fs []reflect.StructField
		for _, f := range d.Fields {
			sf := reflect.StructField{Name: f.Name, Type: GoType(f.T), Anonymous: f.Embedded}
			if f.Tag != "" {
				sf.Tag = reflect.StructTag(fmt.Sprintf(`ion:%q`, f.Tag))
			}
			fs = append(fs, sf)
		}
		return reflect.StructOf(fs)
	}
	panic("harness: unknown type kind " + d.K)
}

func bigOfText(s string) *big.Int {
	v, ok := new(big.Int).SetString(s, 10)
	if !ok {
		return new(big.Int)
	}
	return v
}

// GoTime converts a model timestamp + zone name to time.Time.
func GoTime(ts model.TS, zone string) time.Time {
	loc := time.UTC
	switch {
	case zone == "UTC":
	case zone == "":
		loc = time.FixedZone("", ts.Offset*60)
	default:
		loc = time.FixedZone(zone, ts.Offset*60)
	}
	return time.Date(ts.Year, time.Month(ts.Month), ts.Day, ts.Hour, ts.Min, ts.Sec, ts.Nanos, loc)
}

// Build sets dst (addressable, of type GoType(d)) from g.
func Build(d TypeDesc, g GoVal, dst reflect.Value) {
	switch d.K {
	case "bool":
		dst.SetBool(g.Bool)
	case "int", "int8", "int16", "int32", "int64":
		dst.SetInt(bigOfText(g.Int).Int64())
	case "uint", "uint8", "uint16", "uint32", "uint64", "uintptr":
		dst.SetUint(bigOfText(g.Int).Uint64())
	case "float32", "float64":
		dst.SetFloat(math.Float64frombits(g.F))
	case "string":
		dst.SetString(g.S)
	case "bytes":
		if g.Nil {
			return
		}
		dst.SetBytes(append([]byte{}, g.B...))
	case "timestamp":
		dst.Set(reflect.ValueOf(IonTS(*g.TS)))
	case "time":
		dst.Set(reflect.ValueOf(GoTime(*g.TS, g.Zone)))
	case "decimal":
		dst.Set(reflect.ValueOf(*IonDec(*g.Dec)))
	case "bigint":
		dst.Set(reflect.ValueOf(*bigOfText(g.Int)))
	case "iface":
		if g.Nil || g.Dyn == nil {
			return
		}
		v := reflect.New(GoType(*g.Dyn)).Elem()
		inner := g
		inner.Dyn = nil
		Build(*g.Dyn, inner, v)
		dst.Set(v)
	case "ptr":
		if g.Nil {
			return
		}
		p := reflect.New(dst.Type().Elem())
		Build(*d.Elem, g.Elems[0], p.Elem())
		dst.Set(p)
	case "slice":
		if g.Nil {
			return
		}
		s := reflect.MakeSlice(dst.Type(), len(g.Elems), len(g.Elems))
		for i := range g.Elems {
			Build(*d.Elem, g.Elems[i], s.Index(i))
		}
		dst.Set(s)
	case "array":
		for i := 0; i < d.N && i < len(g.Elems); i++ {
			Build(*d.Elem, g.Elems[i], dst.Index(i))
		}
	case "map":
		if g.Nil {
			return
		}
		m := reflect.MakeMap(dst.Type())
		for i, k := range g.Keys {
			v := reflect.New(dst.Type().Elem()).Elem()
			Build(*d.Elem, g.Elems[i], v)
			m.SetMapIndex(reflect.ValueOf(k), v)
		}
		dst.Set(m)
	default: // struct and static shapes
		for i, f := range d.Fields {
			if i >= len(g.Elems) {
				break
			}
			if f.Tag == "-" {
				continue
			}
			fv := dst.FieldByName(f.Name)
			if !fv.IsValid() || !fv.CanSet() {
				// unexported embedded struct: set its exported fields through promotion
				if f.Embedded && f.T.K == "struct" {
					for j, ff := range f.T.Fields {
						if pv := dst.FieldByName(ff.Name); pv.IsValid() && pv.CanSet() && j < len(g.Elems[i].Elems) {
							Build(ff.T, g.Elems[i].Elems[j], pv)
						}
					}
				}
				continue
			}
			if hasOpt(f.Tag, "annotations") {
				var toks []ion.SymbolToken
				for _, a := range g.Elems[i].Ann {
					toks = append(toks, ion.NewSymbolTokenFromString(a))
				}
				if g.Elems[i].Ann != nil {
					fv.Set(reflect.ValueOf(toks))
				}
				continue
			}
			Build(f.T, g.Elems[i], fv)
		}
	}
}

func hasOpt(tag, opt string) bool {
	i := strings.Index(tag, ",")
	if i < 0 {
		return false
	}
	for _, o := range strings.Split(tag[i+1:], ",") {
		if o == opt {
			return true
		}
	}
	return false
}

func tagName(tag string) string {
	if i := strings.Index(tag, ","); i >= 0 {
		return tag[:i]
	}
	return tag
}

// ---- the documented Go -> Ion mapping, written independently of ion-go's Marshal

// Hint is the tag option in force for a value.
type Hint int

const (
	HNone Hint = iota
	HSymbol
	HClob
	HSexp
)

// TSOfTime is the timestamp Marshal documents for a time.Time: nanosecond
// precision with nine fractional digits; the offset for a non-zero offset, UTC
// for a named zero-offset zone, unknown offset for an unnamed zero-offset zone.
func TSOfTime(t time.Time) model.TS {
	name, off := t.Zone()
	ts := model.TS{Prec: model.PSecond, FracDigits: 9}
	switch {
	case off != 0:
		ts.OffsetKnown, ts.Offset = true, off/60
	case name != "":
		ts.OffsetKnown = true
	default:
		// unknown offset: fields are UTC fields
		t = t.UTC()
	}
	ts.Year, ts.Month, ts.Day = t.Year(), int(t.Month()), t.Day()
	ts.Hour, ts.Min, ts.Sec, ts.Nanos = t.Hour(), t.Minute(), t.Second(), t.Nanosecond()
	return ts
}

// TimeAsInstant makes ModelOf describe a time.Time by its instant only (in UTC):
// the Go notion of equality for time.Time (Time.Equal). Used when comparing a
// value with its round-tripped copy; not when judging Marshal's output.
var TimeAsInstant bool

// ModelOf computes the Ion value the documented mapping assigns to v. sortMaps:
// map keys in sorted order (text); otherwise also sorted (callers compare
// binary output as multisets).
func ModelOf(v reflect.Value, hint Hint) model.Value {
	if !v.IsValid() {
		return model.NullOf(model.Null)
	}
	t := v.Type()
	switch t {
	case timestampT:
		return model.TSV(TSOf(v.Interface().(ion.Timestamp)))
	case timeT:
		tm := v.Interface().(time.Time)
		if TimeAsInstant {
			tm = tm.In(time.UTC)
		}
		return model.TSV(TSOfTime(tm))
	case decimalT:
		d := v.Interface().(ion.Decimal)
		if reflect.DeepEqual(d, ion.Decimal{}) {
			// the zero Decimal (what a null leaves behind) has no coefficient at all
			return model.NullOf(model.Null)
		}
		return model.Value{Kind: model.Decimal, Dec: DecOf(&d)}
	case bigIntT:
		b := v.Interface().(big.Int)
		return model.IntV(&b)
	case symTokT:
		tok := v.Interface().(ion.SymbolToken)
		return model.SymV(SymOf(&tok))
	}
	switch t.Kind() {
	case reflect.Bool:
		return model.BoolV(v.Bool())
	case reflect.Int, reflect.Int8, reflect.Int16, reflect.Int32, reflect.Int64:
		return model.Int64V(v.Int())
	case reflect.Uint, reflect.Uint8, reflect.Uint16, reflect.Uint32, reflect.Uint64, reflect.Uintptr:
		return model.IntV(new(big.Int).SetUint64(v.Uint()))
	case reflect.Float32, reflect.Float64:
		return model.FloatV(v.Float())
	case reflect.String:
		if hint == HSymbol {
			return model.SymV(model.S(v.String()))
		}
		return model.StrV(v.String())
	case reflect.Interface, reflect.Ptr:
		if v.IsNil() {
			return model.NullOf(model.Null)
		}
		return ModelOf(v.Elem(), hint)
	case reflect.Map:
		if v.IsNil() {
			return model.NullOf(model.Null)
		}
		keys := v.MapKeys()
		sort.Slice(keys, func(i, j int) bool { return keys[i].String() < keys[j].String() })
		out := model.StructV()
		for _, k := range keys {
			out.Fields = append(out.Fields, model.Field{Name: model.S(k.String()), Val: ModelOf(v.MapIndex(k), hint)})
		}
		return out
	case reflect.Slice:
		if t.Elem().Kind() == reflect.Uint8 {
			if v.IsNil() {
				return model.NullOf(model.Null)
			}
			if hint == HClob {
				return model.ClobV(append([]byte{}, v.Bytes()...))
			}
			return model.BlobV(append([]byte{}, v.Bytes()...))
		}
		if v.IsNil() {
			return model.NullOf(model.Null)
		}
		fallthrough
	case reflect.Array:
		out := model.ListV()
		if hint == HSexp {
			out = model.SexpV()
		}
		for i := 0; i < v.Len(); i++ {
			out.Elems = append(out.Elems, ModelOf(v.Index(i), hint))
		}
		return out
	case reflect.Struct:
		return modelOfStruct(v)
	}
	panic(fmt.Sprintf("harness: ModelOf: unsupported kind %v", t.Kind()))
}

type flatField struct {
	name  string
	val   reflect.Value // invalid: reached through a nil embedded pointer
	omit  bool
	hint  Hint
	isAnn bool
}

// flatten lists the fields of a struct value the way the documentation
// describes: exported fields (and fields of embedded structs, also unexported
// ones), `ion:"-"` skipped, names from the tag, embedded structs flattened.
func flatten(v reflect.Value, out *[]flatField) {
	t := v.Type()
	for i := 0; i < t.NumField(); i++ {
		sf := t.Field(i)
		ft := sf.Type
		isEmbStruct := false
		if sf.Anonymous {
			et := ft
			if et.Kind() == reflect.Ptr {
				et = et.Elem()
			}
			isEmbStruct = et.Kind() == reflect.Struct
		}
		if sf.PkgPath != "" && !isEmbStruct {
			continue
		}
		tag := sf.Tag.Get("ion")
		if tag == "-" {
			continue
		}
		name := tagName(tag)
		fv := v.Field(i)
		if name == "" && isEmbStruct {
			if fv.Kind() == reflect.Ptr {
				if fv.IsNil() {
					continue
				}
				fv = fv.Elem()
			}
			flatten(fv, out)
			continue
		}
		if name == "" {
			name = sf.Name
		}
		ff := flatField{name: name, val: fv, omit: hasOpt(tag, "omitempty"), isAnn: hasOpt(tag, "annotations")}
		switch {
		case hasOpt(tag, "symbol"):
			ff.hint = HSymbol
		case hasOpt(tag, "clob"):
			ff.hint = HClob
		case hasOpt(tag, "sexp"):
			ff.hint = HSexp
		}
		*out = append(*out, ff)
	}
}

func isEmpty(v reflect.Value) bool {
	switch v.Kind() {
	case reflect.Array, reflect.Map, reflect.Slice, reflect.String:
		return v.Len() == 0
	case reflect.Bool:
		return !v.Bool()
	case reflect.Int, reflect.Int8, reflect.Int16, reflect.Int32, reflect.Int64:
		return v.Int() == 0
	case reflect.Uint, reflect.Uint8, reflect.Uint16, reflect.Uint32, reflect.Uint64, reflect.Uintptr:
		return v.Uint() == 0
	case reflect.Float32, reflect.Float64:
		return v.Float() == 0
	case reflect.Interface, reflect.Ptr:
		return v.IsNil()
	}
	return false
}

func modelOfStruct(v reflect.Value) model.Value {
	var fs []flatField
	flatten(v, &fs)
	// annotation wrapper: a field tagged annotations + one value field
	for _, f := range fs {
		if f.isAnn {
			var inner model.Value
			var ann []model.Sym
			for _, g := range fs {
				if g.isAnn {
					if toks, ok := g.val.Interface().([]ion.SymbolToken); ok {
						for i := range toks {
							ann = append(ann, SymOf(&toks[i]))
						}
					}
				} else {
					inner = ModelOf(g.val, HNone)
				}
			}
			inner.Ann = append(ann, inner.Ann...)
			return inner
		}
	}
	out := model.StructV()
	for _, f := range fs {
		if f.omit && isEmpty(f.val) {
			continue
		}
		out.Fields = append(out.Fields, model.Field{Name: model.S(f.name), Val: ModelOf(f.val, f.hint)})
	}
	return out
}
