package drive

import (
	"fmt"
	"math/big"
	"time"

	"github.com/amzn/ion-go/ion"

	"verif/h/model"
)

// Picker makes API-route choices (which of several equivalent calls to use).
// nil means always choice 0.
type Picker func(n int) int

func (p Picker) pick(n int) int {
	if p == nil {
		return 0
	}
	return p(n)
}

// Tok converts a model symbol to a token the way a user with only text would.
func Tok(s model.Sym) ion.SymbolToken {
	if !s.Known {
		return ion.SymbolToken{LocalSID: 0}
	}
	if ForeignSID != nil {
		// a token as a Reader over some other stream would hand it out: the text
		// together with the ID it had there
		text := s.Text
		return ion.SymbolToken{Text: &text, LocalSID: ForeignSID(text)}
	}
	return ion.NewSymbolTokenFromString(s.Text)
}

// ForeignSID, when set, makes Tok attach a symbol ID from an unrelated table to
// every token that has text (the text is what a writer must go by).
var ForeignSID func(text string) int64

// IonTS converts a model timestamp to an ion.Timestamp through public constructors.
func IonTS(t model.TS) ion.Timestamp {
	switch t.Prec {
	case model.PYear:
		return ion.NewDateTimestamp(time.Date(t.Year, 1, 1, 0, 0, 0, 0, time.UTC), ion.TimestampPrecisionYear)
	case model.PMonth:
		return ion.NewDateTimestamp(time.Date(t.Year, time.Month(t.Month), 1, 0, 0, 0, 0, time.UTC), ion.TimestampPrecisionMonth)
	case model.PDay:
		return ion.NewDateTimestamp(time.Date(t.Year, time.Month(t.Month), t.Day, 0, 0, 0, 0, time.UTC), ion.TimestampPrecisionDay)
	}
	loc := time.UTC
	kind := ion.TimezoneUTC
	if !t.OffsetKnown {
		kind = ion.TimezoneUnspecified
	} else if t.Offset != 0 {
		kind = ion.TimezoneLocal
		loc = time.FixedZone("fixed", t.Offset*60)
	}
	sec, ns := 0, 0
	prec := ion.TimestampPrecisionMinute
	if t.Prec == model.PSecond {
		sec, ns = t.Sec, t.Nanos
		prec = ion.TimestampPrecisionSecond
		if t.FracDigits > 0 {
			prec = ion.TimestampPrecisionNanosecond
		}
	}
	dt := time.Date(t.Year, time.Month(t.Month), t.Day, t.Hour, t.Min, sec, ns, loc)
	return ion.NewTimestampWithFractionalSeconds(dt, prec, kind, uint8(t.FracDigits))
}

// IonDec converts a model decimal.
func IonDec(d model.Dec) *ion.Decimal {
	return ion.NewDecimal(new(big.Int).Set(d.Coef), int32(d.Exp), d.NegZero)
}

var (
	maxU64 = new(big.Int).SetUint64(^uint64(0))
)

// WriteSeq writes vals at the current level of w.
func WriteSeq(w ion.Writer, vals []model.Value, p Picker) error {
	for i := range vals {
		if err := WriteValue(w, vals[i], p); err != nil {
			return err
		}
	}
	return nil
}

// WriteAnnotations sends the annotations of v.
func WriteAnnotations(w ion.Writer, ann []model.Sym, p Picker) error {
	if len(ann) == 0 {
		return nil
	}
	if p.pick(2) == 0 {
		for _, a := range ann {
			if err := w.Annotation(Tok(a)); err != nil {
				return fmt.Errorf("Annotation: %w", err)
			}
		}
		return nil
	}
	toks := make([]ion.SymbolToken, len(ann))
	for i, a := range ann {
		toks[i] = Tok(a)
	}
	if err := w.Annotations(toks...); err != nil {
		return fmt.Errorf("Annotations: %w", err)
	}
	return nil
}

// WriteValue writes one value (field name must already be set by the caller).
func WriteValue(w ion.Writer, v model.Value, p Picker) error {
	if err := WriteAnnotations(w, v.Ann, p); err != nil {
		return err
	}
	if v.IsNull {
		if v.Kind == model.Null && p.pick(2) == 0 {
			return w.WriteNull()
		}
		return w.WriteNullType(TypeOf(v.Kind))
	}
	switch v.Kind {
	case model.Bool:
		return w.WriteBool(v.Bool)
	case model.Int:
		route := p.pick(3) // 0 narrowest, 1 bigint, 2 uint if possible
		if route != 1 && v.Int.IsInt64() && !(route == 2 && v.Int.Sign() >= 0) {
			return w.WriteInt(v.Int.Int64())
		}
		if route != 1 && v.Int.Sign() >= 0 && v.Int.Cmp(maxU64) <= 0 {
			return w.WriteUint(v.Int.Uint64())
		}
		tmp := new(big.Int).Set(v.Int)
		err := w.WriteBigInt(tmp)
		tmp.SetInt64(-77) // the caller's big.Int is the caller's again
		return err
	case model.Float:
		return w.WriteFloat(v.Float)
	case model.Decimal:
		return w.WriteDecimal(IonDec(v.Dec))
	case model.Timestamp:
		return w.WriteTimestamp(IonTS(v.TS))
	case model.Symbol:
		if v.Sym.Known && p.pick(2) == 1 && !dollarDigits(v.Sym.Text) {
			return w.WriteSymbolFromString(v.Sym.Text)
		}
		return w.WriteSymbol(Tok(v.Sym))
	case model.String:
		return w.WriteString(v.Text)
	case model.Clob, model.Blob:
		// the caller's slice belongs to the caller again once the call returns
		// (as with io.Writer): it is overwritten right away
		tmp := append(make([]byte, 0, len(v.Bytes)+8), v.Bytes...)
		var err error
		if v.Kind == model.Clob {
			err = w.WriteClob(tmp)
		} else {
			err = w.WriteBlob(tmp)
		}
		for i := range tmp {
			tmp[i] = 0xEE
		}
		return err
	case model.List:
		if err := w.BeginList(); err != nil {
			return err
		}
		if err := WriteSeq(w, v.Elems, p); err != nil {
			return err
		}
		return w.EndList()
	case model.Sexp:
		if err := w.BeginSexp(); err != nil {
			return err
		}
		if err := WriteSeq(w, v.Elems, p); err != nil {
			return err
		}
		return w.EndSexp()
	case model.Struct:
		if err := w.BeginStruct(); err != nil {
			return err
		}
		for _, f := range v.Fields {
			if !w.IsInStruct() {
				return fmt.Errorf("harness: IsInStruct() false after BeginStruct")
			}
			if err := w.FieldName(Tok(f.Name)); err != nil {
				return fmt.Errorf("FieldName: %w", err)
			}
			if err := WriteValue(w, f.Val, p); err != nil {
				return err
			}
		}
		return w.EndStruct()
	}
	return fmt.Errorf("harness: cannot write kind %v", v.Kind)
}

// dollarDigits reports whether s has the shape $<digits> which
// WriteSymbolFromString treats as a symbol ID (pinned by the repository's own
// TestWriteBinarySymbol), so text of that shape is never sent that way.
func dollarDigits(s string) bool {
	if len(s) < 2 || s[0] != '$' {
		return false
	}
	for i := 1; i < len(s); i++ {
		if s[i] < '0' || s[i] > '9' {
			return false
		}
	}
	return true
}

// DollarDigits is exported for generators.
func DollarDigits(s string) bool { return dollarDigits(s) }

// Mode is a writer mode.
type Mode int

const (
	Text Mode = iota
	Pretty
	Binary
)

func (m Mode) String() string { return [...]string{"text", "pretty", "binary"}[m] }

// NewWriter creates a writer in the given mode.
func NewWriter(m Mode, out interface {
	Write([]byte) (int, error)
}, ssts ...ion.SharedSymbolTable) ion.Writer {
	switch m {
	case Text:
		return ion.NewTextWriter(out, ssts...)
	case Pretty:
		return ion.NewTextWriterOpts(out, ion.TextWriterPretty, ssts...)
	}
	return ion.NewBinaryWriter(out, ssts...)
}

// Copy is the copy loop documented in the README (writeFromReaderToWriter),
// completed for every Ion type in the same style: field name if non-nil,
// annotations if any, WriteNullType for nulls, ints by IntSize, the reader's
// symbol token handed to WriteSymbol, recursion with StepIn/StepOut.
func Copy(r ion.Reader, w ion.Writer) error {
	for r.Next() {
		name, err := r.FieldName()
		if err != nil {
			return fmt.Errorf("FieldName: %w", err)
		}
		if name != nil {
			if err := w.FieldName(*name); err != nil {
				return fmt.Errorf("Writer.FieldName: %w", err)
			}
		}
		an, err := r.Annotations()
		if err != nil {
			return fmt.Errorf("Annotations: %w", err)
		}
		if len(an) > 0 {
			if err := w.Annotations(an...); err != nil {
				return fmt.Errorf("Writer.Annotations: %w", err)
			}
		}
		t := r.Type()
		if r.IsNull() {
			if err := w.WriteNullType(t); err != nil {
				return fmt.Errorf("WriteNullType: %w", err)
			}
			continue
		}
		switch t {
		case ion.BoolType:
			v, err := r.BoolValue()
			if err != nil {
				return err
			}
			err = w.WriteBool(*v)
			if err != nil {
				return err
			}
		case ion.IntType:
			size, err := r.IntSize()
			if err != nil {
				return err
			}
			switch size {
			case ion.Int32:
				v, err := r.IntValue()
				if err != nil {
					return err
				}
				if err := w.WriteInt(int64(*v)); err != nil {
					return err
				}
			case ion.Int64:
				v, err := r.Int64Value()
				if err != nil {
					return err
				}
				if err := w.WriteInt(*v); err != nil {
					return err
				}
			default:
				v, err := r.BigIntValue()
				if err != nil {
					return err
				}
				if err := w.WriteBigInt(v); err != nil {
					return err
				}
			}
		case ion.FloatType:
			v, err := r.FloatValue()
			if err != nil {
				return err
			}
			if err := w.WriteFloat(*v); err != nil {
				return err
			}
		case ion.DecimalType:
			v, err := r.DecimalValue()
			if err != nil {
				return err
			}
			if err := w.WriteDecimal(v); err != nil {
				return err
			}
		case ion.TimestampType:
			v, err := r.TimestampValue()
			if err != nil {
				return err
			}
			if err := w.WriteTimestamp(*v); err != nil {
				return err
			}
		case ion.SymbolType:
			v, err := r.SymbolValue()
			if err != nil {
				return err
			}
			if err := w.WriteSymbol(*v); err != nil {
				return fmt.Errorf("WriteSymbol: %w", err)
			}
		case ion.StringType:
			v, err := r.StringValue()
			if err != nil {
				return err
			}
			if err := w.WriteString(*v); err != nil {
				return err
			}
		case ion.ClobType:
			v, err := r.ByteValue()
			if err != nil {
				return err
			}
			if err := w.WriteClob(v); err != nil {
				return err
			}
		case ion.BlobType:
			v, err := r.ByteValue()
			if err != nil {
				return err
			}
			if err := w.WriteBlob(v); err != nil {
				return err
			}
		case ion.ListType, ion.SexpType, ion.StructType:
			if err := r.StepIn(); err != nil {
				return err
			}
			switch t {
			case ion.ListType:
				err = w.BeginList()
			case ion.SexpType:
				err = w.BeginSexp()
			default:
				err = w.BeginStruct()
			}
			if err != nil {
				return err
			}
			if err := Copy(r, w); err != nil {
				return err
			}
			if err := r.StepOut(); err != nil {
				return err
			}
			switch t {
			case ion.ListType:
				err = w.EndList()
			case ion.SexpType:
				err = w.EndSexp()
			default:
				err = w.EndStruct()
			}
			if err != nil {
				return err
			}
		default:
			return fmt.Errorf("harness: unexpected type %v", t)
		}
	}
	return r.Err()
}
