// c06worker is the isolated process in which property C06 runs ion-go on
// hostile input. It reads framed records from stdin and answers each with one
// JSON line on stdout. A panic is recovered and reported; a fatal runtime error
// (out of memory, stack exhaustion) kills the process, which the parent
// attributes to the record in flight.
package main

import (
	"bufio"
	"bytes"
	"encoding/binary"
	"encoding/json"
	"fmt"
	"io"
	"math/big"
	"os"
	"runtime/debug"
	"runtime/metrics"
	"syscall"
	"time"

	"github.com/amzn/ion-go/ion"

	"verif/h/drive"
)

type reply struct {
	Status string `json:"st"` // ok | panic
	Alloc  uint64 `json:"alloc"`
	Nanos  int64  `json:"ns"`
	Next   int    `json:"next"`
	Msg    string `json:"msg,omitempty"`
}

type inner struct {
	A int
	B string
}

type annotated struct {
	V   int
	Ann []ion.SymbolToken `ion:",annotations"`
}

type rec struct {
	Name  string           `ion:"name"`
	I     int32            `ion:"i"`
	U     uint8            `ion:"u"`
	F     float32          `ion:"f"`
	S     []string         `ion:"s"`
	M     map[string]inner `ion:"m"`
	P     *inner           `ion:"p"`
	Any   interface{}      `ion:"any"`
	T     ion.Timestamp    `ion:"t"`
	D     *ion.Decimal     `ion:"d"`
	Sym   ion.SymbolToken  `ion:"sym"`
	Blob  []byte           `ion:"blob"`
	Arr   [3]int           `ion:"arr"`
	Inner inner            `ion:"inner"`
}

// Targets returns fresh pointers to the Unmarshal target types.
func targets() []func() interface{} {
	return []func() interface{}{
		func() interface{} { return new(bool) },
		func() interface{} { return new(int) },
		func() interface{} { return new(int8) },
		func() interface{} { return new(int64) },
		func() interface{} { return new(uint) },
		func() interface{} { return new(uint16) },
		func() interface{} { return new(uint64) },
		func() interface{} { return new(float32) },
		func() interface{} { return new(float64) },
		func() interface{} { return new(string) },
		func() interface{} { return new([]byte) },
		func() interface{} { return new([4]byte) },
		func() interface{} { return new([]int) },
		func() interface{} { return new([2]string) },
		func() interface{} { return new([]interface{}) },
		func() interface{} { return new(map[string]interface{}) },
		func() interface{} { return new(map[string]int) },
		func() interface{} { return new(interface{}) },
		func() interface{} { return new(*int) },
		func() interface{} { return new(**string) },
		func() interface{} { return new(ion.Timestamp) },
		func() interface{} { return new(time.Time) },
		func() interface{} { return new(ion.Decimal) },
		func() interface{} { return new(*ion.Decimal) },
		func() interface{} { return new(big.Int) },
		func() interface{} { return new(*big.Int) },
		func() interface{} { return new(ion.SymbolToken) },
		func() interface{} { return new(inner) },
		func() interface{} { return new(annotated) },
		func() interface{} { return new(rec) },
		func() interface{} { return new([]rec) },
		func() interface{} { return new(fmt.Stringer) },
		func() interface{} { return new([1]int) },
		func() interface{} { return new([0]interface{}) },
		func() interface{} {
			return new(struct {
				Arr  [2]int  `ion:"arr"`
				Blob [3]byte `ion:"blob"`
			})
		},
	}
}

func main() {
	if len(os.Args) > 1 && os.Args[1] == "-ntargets" {
		fmt.Println(len(targets()))
		return
	}
	limit := uint64(3 << 30)
	_ = syscall.Setrlimit(syscall.RLIMIT_AS, &syscall.Rlimit{Cur: limit, Max: limit})
	debug.SetGCPercent(100)
	in := bufio.NewReaderSize(os.Stdin, 1<<20)
	out := bufio.NewWriter(os.Stdout)
	tg := targets()
	for {
		var hdr [9]byte
		if _, err := io.ReadFull(in, hdr[:]); err != nil {
			return
		}
		kind := hdr[0]
		alen := binary.BigEndian.Uint32(hdr[1:5])
		ilen := binary.BigEndian.Uint32(hdr[5:9])
		arg := make([]byte, alen)
		input := make([]byte, ilen)
		if _, err := io.ReadFull(in, arg); err != nil {
			return
		}
		if _, err := io.ReadFull(in, input); err != nil {
			return
		}
		r := run(kind, arg, input, tg)
		b, _ := json.Marshal(r)
		out.Write(b)
		out.WriteByte('\n')
		out.Flush()
	}
}

var allocSample = []metrics.Sample{{Name: "/gc/heap/allocs:bytes"}}

// allocated returns the cumulative number of heap bytes allocated so far.
func allocated() uint64 {
	metrics.Read(allocSample)
	return allocSample[0].Value.Uint64()
}

// workerCatalog holds tables under the names the hostile symbol tables import.
var workerCatalog = ion.NewCatalog(
	ion.NewSharedSymbolTable("t", 1, []string{"a", "b", "c"}),
	ion.NewSharedSymbolTable("t", 3, []string{"a", "b", "c", "d", "e"}),
	ion.NewSharedSymbolTable("x", 2, []string{"x1"}),
	ion.NewSharedSymbolTable("t1", 1, []string{"p", "q"}),
	ion.NewSharedSymbolTable("shared", 1, nil),
)

func run(kind byte, arg, input []byte, tg []func() interface{}) (rep reply) {
	a0 := allocated()
	t0 := time.Now()
	defer func() {
		if r := recover(); r != nil {
			rep.Status = "panic"
			rep.Msg = fmt.Sprintf("%v\n%s", r, debug.Stack())
		}
		rep.Nanos = time.Since(t0).Nanoseconds()
		rep.Alloc = allocated() - a0
	}()
	rep.Status = "ok"
	switch kind {
	case 0: // full traversal
		rep.Next = traverse(ion.NewReaderBytes(input), len(input)+64)
	case 1: // navigation program
		rep.Next = drive.Navigate(ion.NewReaderBytes(input), arg)
	case 2: // Decoder.Decode until error
		d := ion.NewDecoder(ion.NewReaderBytes(input))
		for rep.Next <= len(input)+64 {
			if _, err := d.Decode(); err != nil {
				break
			}
			rep.Next++
		}
	case 3: // Unmarshal into a target type
		k := 0
		if len(arg) > 0 {
			k = int(arg[0]) % len(tg)
		}
		_ = ion.Unmarshal(input, tg[k]())
	case 5: // full traversal by a reader that holds a catalog (imports resolve, Adjust runs)
		rep.Next = traverse(ion.NewReaderCat(bytes.NewReader(input), workerCatalog), len(input)+64)
	case 4: // Decoder.DecodeTo a target type, repeatedly
		k := 0
		if len(arg) > 0 {
			k = int(arg[0]) % len(tg)
		}
		d := ion.NewDecoder(ion.NewReaderBytes(input))
		for rep.Next <= len(input)+64 {
			if err := d.DecodeTo(tg[k]()); err != nil {
				break
			}
			rep.Next++
		}
	}
	return
}

// traverse enters every container and reads every scalar; returns the number of
// successful Next calls (stops counting beyond max).
func traverse(r ion.Reader, max int) int {
	n := 0
	var walk func()
	walk = func() {
		for n <= max && r.Next() {
			n++
			r.Annotations()
			r.FieldName()
			switch r.Type() {
			case ion.ListType, ion.SexpType, ion.StructType:
				if r.IsNull() {
					continue
				}
				if err := r.StepIn(); err != nil {
					continue
				}
				walk()
				if err := r.StepOut(); err != nil {
					return
				}
			default:
				drive.ReadScalar(r)
			}
		}
	}
	walk()
	r.Err()
	return n
}
