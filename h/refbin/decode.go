package refbin

import (
	"fmt"
	"math"
	"math/big"
	"unicode/utf8"

	"verif/h/model"
)

// ErrKind classifies decoder errors.
type ErrKind int

const (
	// Invalid: the bytes violate Ion 1.0 binary.
	Invalid ErrKind = iota
	// Truncated: input ends inside a value or container (also a violation).
	Truncated
	// Unsupported: legal or undecided construct the reference does not model
	// (other Ion versions, exponents beyond int64, VarUInts longer than 10
	// bytes, sub-nanosecond fractions). Never used as a rejection witness.
	Unsupported
)

// Error is a decoder error.
type Error struct {
	Kind ErrKind
	Pos  int
	Msg  string
	// InLST: the error was found inside a top-level symbol-table struct (content
	// a reader consumes itself and may legitimately skip without validating).
	InLST bool
}

func (e *Error) Error() string {
	k := [...]string{"invalid", "truncated", "unsupported"}[e.Kind]
	return fmt.Sprintf("refbin: %s at %d: %s", k, e.Pos, e.Msg)
}

// SymUse records how one symbol occurrence was encoded.
type SymUse struct {
	SID   uint64
	Text  model.Sym
	Table int    // index into Result.Tables of the table in force
	Where string // "value", "field", "annotation"
	User  bool   // occurs in a user value (not in a symbol-table struct)
}

// TableDecl describes one local symbol table struct found at top level.
type TableDecl struct {
	Append     bool
	Imports    []Import
	Symbols    []Slot
	Ambiguous  bool // repeated imports/symbols fields or other undecided content
	Pos        int
	HasImports bool
	HasSymbols bool
}

// Result is what the decoder recovered.
type Result struct {
	Values []model.Value
	Tables []*SymTab // Tables[0] is the system table; a new entry per IVM / LST
	Decls  []TableDecl
	Uses   []SymUse
	IVMs   int
	NOPs   int
	// ValueEnds[i] is the offset just past top-level user value i.
	ValueEnds []int
	// ValueMaxIDs[i] is the max_id of the table in force at user value i.
	ValueMaxIDs []int
}

// Options configure decoding.
type Options struct {
	Catalog    Catalog
	RequireIVM bool // stream must begin with the version marker (C04)
}

type decoder struct {
	b    []byte
	opt  Options
	res  *Result
	tab  *SymTab
	user bool
}

func (d *decoder) errf(k ErrKind, pos int, f string, a ...interface{}) *Error {
	return &Error{Kind: k, Pos: pos, Msg: fmt.Sprintf(f, a...), InLST: !d.user}
}

// Decode strictly decodes an Ion 1.0 binary stream.
func Decode(data []byte, opt Options) (*Result, error) {
	d := &decoder{b: data, opt: opt, res: &Result{}, tab: NewSystemTab(), user: true}
	d.res.Tables = append(d.res.Tables, d.tab)
	pos := 0
	if len(data) == 0 {
		if opt.RequireIVM {
			return d.res, nil // empty output is vacuously fine
		}
		return d.res, nil
	}
	if len(data) < 4 || data[0] != 0xE0 || data[3] != 0xEA {
		return d.res, d.errf(Invalid, 0, "stream does not begin with a version marker")
	}
	for pos < len(data) {
		if data[pos] == 0xE0 {
			if pos+4 > len(data) {
				return d.res, d.errf(Truncated, pos, "truncated version marker")
			}
			if data[pos+3] != 0xEA {
				return d.res, d.errf(Invalid, pos, "malformed version marker")
			}
			if data[pos+1] != 1 || data[pos+2] != 0 {
				return d.res, d.errf(Unsupported, pos, "Ion version %d.%d", data[pos+1], data[pos+2])
			}
			pos += 4
			d.tab = NewSystemTab()
			d.res.Tables = append(d.res.Tables, d.tab)
			d.res.IVMs++
			continue
		}
		// peek: is this a symbol table? decode with user=false first if the
		// first annotation is $ion_symbol_table
		isLST := d.peekLST(pos)
		d.user = !isLST
		nuses := len(d.res.Uses)
		v, next, nop, err := d.value(pos, len(data), 0)
		d.user = true
		if err != nil {
			return d.res, err
		}
		if nop {
			d.res.NOPs++
			pos = next
			continue
		}
		if isLST {
			_ = nuses
			if err := d.applyLST(v, pos); err != nil {
				return d.res, err
			}
			pos = next
			continue
		}
		d.res.Values = append(d.res.Values, v)
		d.res.ValueEnds = append(d.res.ValueEnds, next)
		d.res.ValueMaxIDs = append(d.res.ValueMaxIDs, d.tab.MaxID())
		pos = next
	}
	return d.res, nil
}

// peekLST reports whether the value at pos is an annotation wrapper whose
// first annotation is $ion_symbol_table around a struct.
func (d *decoder) peekLST(pos int) bool {
	b := d.b
	if pos >= len(b) || b[pos]>>4 != 14 {
		return false
	}
	p := pos + 1
	if b[pos]&0xF == 14 {
		_, n, err := d.varUint(p, len(b))
		if err != nil {
			return false
		}
		p = n
	}
	_, p2, err := d.varUint(p, len(b)) // annot_length
	if err != nil {
		return false
	}
	sid, p3, err := d.varUint(p2, len(b))
	if err != nil {
		return false
	}
	slot, ok := d.tab.Lookup(sid)
	if !ok || !slot.Known || slot.Text != "$ion_symbol_table" {
		return false
	}
	// find the wrapped value's type: skip remaining annotations
	al, _, _ := d.varUint(p, len(b))
	_ = p3
	vp := p2 + int(al)
	if vp >= len(b) {
		return false
	}
	return b[vp]>>4 == 13
}

func (d *decoder) applyLST(v model.Value, pos int) error {
	newTab, decl, err := LSTFromValue(v, d.tab, d.opt.Catalog)
	decl.Pos = pos
	if err != nil {
		return d.errf(Invalid, pos, "%v", err)
	}
	d.tab = newTab
	d.res.Tables = append(d.res.Tables, newTab)
	d.res.Decls = append(d.res.Decls, decl)
	return nil
}

// LSTFromValue interprets a decoded $ion_symbol_table struct against the
// current table cur and returns the table it puts in force.
func LSTFromValue(v model.Value, cur *SymTab, cat Catalog) (*SymTab, TableDecl, error) {
	decl := TableDecl{}
	var impVal, symVal *model.Value
	if !v.IsNull {
		for i := range v.Fields {
			f := &v.Fields[i]
			if !f.Name.Known {
				continue
			}
			switch f.Name.Text {
			case "imports":
				if impVal != nil {
					decl.Ambiguous = true
					continue
				}
				impVal = &f.Val
			case "symbols":
				if symVal != nil {
					decl.Ambiguous = true
					continue
				}
				symVal = &f.Val
			}
		}
	}
	if symVal != nil && symVal.Kind == model.List && !symVal.IsNull {
		decl.HasSymbols = true
		for _, e := range symVal.Elems {
			if e.Kind == model.String && !e.IsNull {
				decl.Symbols = append(decl.Symbols, K(e.Text))
			} else {
				decl.Symbols = append(decl.Symbols, Slot{})
			}
		}
	}
	if impVal != nil && impVal.Kind == model.Symbol && !impVal.IsNull && impVal.Sym.Known && impVal.Sym.Text == "$ion_symbol_table" {
		decl.Append = true
		return cur.Append(decl.Symbols), decl, nil
	}
	if impVal != nil && impVal.Kind == model.List && !impVal.IsNull {
		decl.HasImports = true
		for _, e := range impVal.Elems {
			if e.Kind != model.Struct || e.IsNull {
				continue
			}
			imp := Import{Version: 1, MaxID: -1}
			name := ""
			for _, f := range e.Fields {
				if !f.Name.Known {
					continue
				}
				switch f.Name.Text {
				case "name":
					if f.Val.Kind == model.String && !f.Val.IsNull {
						name = f.Val.Text
					}
				case "version":
					if f.Val.Kind == model.Int && !f.Val.IsNull && f.Val.Int.IsInt64() && f.Val.Int.Int64() >= 1 && f.Val.Int.Int64() < math.MaxInt32 {
						imp.Version = int(f.Val.Int.Int64())
					}
				case "max_id":
					if f.Val.Kind == model.Int && !f.Val.IsNull && f.Val.Int.Sign() >= 0 && f.Val.Int.IsInt64() && f.Val.Int.Int64() < 1<<24 {
						imp.MaxID = int(f.Val.Int.Int64())
					} else if f.Val.Kind == model.Int {
						decl.Ambiguous = true
					}
				}
			}
			if name == "" || name == "$ion" {
				continue
			}
			imp.Name = name
			decl.Imports = append(decl.Imports, imp)
		}
	}
	t, err := BuildLocal(decl.Imports, decl.Symbols, cat)
	if err != nil {
		return nil, decl, err
	}
	return t, decl, nil
}

// varUint reads a VarUInt at pos (limit end).
func (d *decoder) varUint(pos, end int) (uint64, int, error) {
	var v uint64
	for i := 0; ; i++ {
		if pos >= end {
			if end >= len(d.b) {
				return 0, pos, d.errf(Truncated, pos, "input ends inside a VarUInt")
			}
			return 0, pos, d.errf(Invalid, pos, "VarUInt overruns its container")
		}
		if i >= 10 {
			return 0, pos, d.errf(Unsupported, pos, "VarUInt longer than 10 bytes")
		}
		c := d.b[pos]
		pos++
		if v > math.MaxUint64>>7 {
			// a length, ID or calendar field of 2^64 or more cannot be honoured
			// by any input: invalid wherever it stands
			return 0, pos, d.errf(Invalid, pos, "VarUInt exceeds 64 bits")
		}
		v = v<<7 | uint64(c&0x7F)
		if c&0x80 != 0 {
			return v, pos, nil
		}
	}
}

// varInt reads a VarInt; negZero reports -0.
func (d *decoder) varInt(pos, end int) (val int64, negZero bool, next int, err error) {
	var v uint64
	neg := false
	for i := 0; ; i++ {
		if pos >= end {
			if end >= len(d.b) {
				return 0, false, pos, d.errf(Truncated, pos, "input ends inside a VarInt")
			}
			return 0, false, pos, d.errf(Invalid, pos, "VarInt overruns its container")
		}
		if i >= 10 {
			return 0, false, pos, d.errf(Unsupported, pos, "VarInt longer than 10 bytes")
		}
		c := d.b[pos]
		pos++
		if i == 0 {
			neg = c&0x40 != 0
			v = uint64(c & 0x3F)
		} else {
			if v > math.MaxInt64>>7 {
				return 0, false, pos, d.errf(Unsupported, pos, "VarInt exceeds 63 bits")
			}
			v = v<<7 | uint64(c&0x7F)
		}
		if c&0x80 != 0 {
			break
		}
	}
	if neg {
		return -int64(v), v == 0, pos, nil
	}
	return int64(v), false, pos, nil
}

const maxDepth = 2000

// value decodes one value at pos, which must lie entirely before end.
func (d *decoder) value(pos, end, depth int) (v model.Value, next int, nop bool, err error) {
	if depth > maxDepth {
		return v, pos, false, d.errf(Unsupported, pos, "nesting deeper than %d", maxDepth)
	}
	if pos >= end {
		return v, pos, false, d.errf(Truncated, pos, "expected a value")
	}
	td := d.b[pos]
	T, L := int(td>>4), int(td&0xF)
	start := pos
	pos++
	if T == 15 {
		return v, pos, false, d.errf(Invalid, start, "reserved type code 15")
	}
	if T == 14 {
		return d.annotated(start, end, depth)
	}
	if L == 15 {
		// typed null
		kinds := [...]model.Kind{model.Null, model.Bool, model.Int, model.Int, model.Float, model.Decimal, model.Timestamp,
			model.Symbol, model.String, model.Clob, model.Blob, model.List, model.Sexp, model.Struct}
		v.Kind, v.IsNull = kinds[T], true
		return v, pos, false, nil
	}
	if T == 1 {
		switch L {
		case 0:
			return model.BoolV(false), pos, false, nil
		case 1:
			return model.BoolV(true), pos, false, nil
		}
		return v, pos, false, d.errf(Invalid, start, "bool with L=%d", L)
	}
	length := uint64(L)
	sorted := false
	if T == 13 && L == 1 {
		sorted = true
		length, pos, err = d.varUint(pos, end)
		if err != nil {
			return v, pos, false, err
		}
		if length == 0 {
			return v, pos, false, d.errf(Invalid, start, "sorted struct of length 0")
		}
	} else if L == 14 {
		length, pos, err = d.varUint(pos, end)
		if err != nil {
			return v, pos, false, err
		}
	}
	if length > uint64(end-pos) {
		if end >= len(d.b) {
			return v, pos, false, d.errf(Truncated, start, "value of length %d overruns the input (%d left)", length, end-pos)
		}
		return v, pos, false, d.errf(Invalid, start, "value of length %d overruns its container (%d left)", length, end-pos)
	}
	vend := pos + int(length)
	body := d.b[pos:vend]
	switch T {
	case 0:
		return v, vend, true, nil
	case 2, 3:
		mag := new(big.Int).SetBytes(body)
		if T == 3 {
			if mag.Sign() == 0 {
				return v, vend, false, d.errf(Invalid, start, "negative zero integer")
			}
			mag.Neg(mag)
		}
		return model.Value{Kind: model.Int, Int: mag}, vend, false, nil
	case 4:
		switch len(body) {
		case 0:
			return model.FloatV(0), vend, false, nil
		case 4:
			u := uint32(body[0])<<24 | uint32(body[1])<<16 | uint32(body[2])<<8 | uint32(body[3])
			return model.FloatV(float64(math.Float32frombits(u))), vend, false, nil
		case 8:
			var u uint64
			for _, c := range body {
				u = u<<8 | uint64(c)
			}
			return model.FloatV(math.Float64frombits(u)), vend, false, nil
		}
		return v, vend, false, d.errf(Invalid, start, "float of length %d", len(body))
	case 5:
		if len(body) == 0 {
			return model.DecV(new(big.Int), 0, false), vend, false, nil
		}
		exp, _, p, e := d.varInt(pos, vend)
		if e != nil {
			return v, vend, false, e
		}
		coef, negZero := intField(d.b[p:vend])
		return model.Value{Kind: model.Decimal, Dec: model.Dec{Coef: coef, Exp: exp, NegZero: negZero}}, vend, false, nil
	case 6:
		ts, e := d.timestamp(pos, vend, start)
		if e != nil {
			return v, vend, false, e
		}
		return model.TSV(ts), vend, false, nil
	case 7:
		if len(body) > 8 {
			return v, vend, false, d.errf(Unsupported, start, "symbol ID wider than 8 bytes")
		}
		var sid uint64
		for _, c := range body {
			sid = sid<<8 | uint64(c)
		}
		s, e := d.sym(sid, start, "value")
		if e != nil {
			return v, vend, false, e
		}
		return model.SymV(s), vend, false, nil
	case 8:
		if !utf8.Valid(body) {
			return v, vend, false, d.errf(Invalid, start, "string is not valid UTF-8")
		}
		return model.StrV(string(body)), vend, false, nil
	case 9:
		return model.ClobV(append([]byte{}, body...)), vend, false, nil
	case 10:
		return model.BlobV(append([]byte{}, body...)), vend, false, nil
	case 11, 12:
		v.Kind = model.List
		if T == 12 {
			v.Kind = model.Sexp
		}
		for pos < vend {
			c, n, isNop, e := d.value(pos, vend, depth+1)
			if e != nil {
				return v, vend, false, e
			}
			pos = n
			if isNop {
				d.res.NOPs++
				continue
			}
			v.Elems = append(v.Elems, c)
		}
		return v, vend, false, nil
	case 13:
		v.Kind = model.Struct
		last := uint64(0)
		for pos < vend {
			fid, n, e := d.varUint(pos, vend)
			if e != nil {
				return v, vend, false, e
			}
			fpos := pos
			pos = n
			if pos >= vend {
				return v, vend, false, d.errf(Invalid, fpos, "field name without a value")
			}
			c, n2, isNop, e := d.value(pos, vend, depth+1)
			if e != nil {
				return v, vend, false, e
			}
			pos = n2
			if isNop {
				d.res.NOPs++
				continue
			}
			name, e := d.sym(fid, fpos, "field")
			if e != nil {
				return v, vend, false, e
			}
			if sorted && fid < last {
				return v, vend, false, d.errf(Invalid, fpos, "sorted struct fields out of order")
			}
			last = fid
			v.Fields = append(v.Fields, model.Field{Name: name, Val: c})
		}
		return v, vend, false, nil
	}
	return v, vend, false, d.errf(Invalid, start, "unhandled type %d", T)
}

func (d *decoder) sym(sid uint64, pos int, where string) (model.Sym, error) {
	slot, ok := d.tab.Lookup(sid)
	if !ok {
		return model.Sym{}, d.errf(Invalid, pos, "symbol ID %d above max_id %d of the table in force", sid, d.tab.MaxID())
	}
	s := model.Sym{Text: slot.Text, Known: slot.Known}
	d.res.Uses = append(d.res.Uses, SymUse{SID: sid, Text: s, Table: len(d.res.Tables) - 1, Where: where, User: d.user})
	return s, nil
}

// intField decodes a sign-magnitude Int field (possibly empty).
func intField(b []byte) (*big.Int, bool) {
	if len(b) == 0 {
		return new(big.Int), false
	}
	neg := b[0]&0x80 != 0
	mb := append([]byte{b[0] & 0x7F}, b[1:]...)
	m := new(big.Int).SetBytes(mb)
	if neg {
		if m.Sign() == 0 {
			return m, true
		}
		m.Neg(m)
	}
	return m, false
}

func (d *decoder) annotated(start, end, depth int) (v model.Value, next int, nop bool, err error) {
	L := int(d.b[start] & 0xF)
	pos := start + 1
	if L == 15 {
		return v, pos, false, d.errf(Invalid, start, "annotation wrapper with L=15")
	}
	if L == 0 {
		return v, pos, false, d.errf(Invalid, start, "version marker inside a container or malformed wrapper")
	}
	length := uint64(L)
	if L == 14 {
		length, pos, err = d.varUint(pos, end)
		if err != nil {
			return v, pos, false, err
		}
	}
	if length < 3 {
		return v, pos, false, d.errf(Invalid, start, "annotation wrapper of length %d", length)
	}
	if length > uint64(end-pos) {
		if end >= len(d.b) {
			return v, pos, false, d.errf(Truncated, start, "annotation wrapper overruns the input")
		}
		return v, pos, false, d.errf(Invalid, start, "annotation wrapper overruns its container")
	}
	wend := pos + int(length)
	alen, p, e := d.varUint(pos, wend)
	if e != nil {
		return v, wend, false, e
	}
	if alen == 0 {
		return v, wend, false, d.errf(Invalid, start, "annot_length 0")
	}
	if alen >= uint64(wend-p) {
		return v, wend, false, d.errf(Invalid, start, "annot_length %d leaves no room for a value", alen)
	}
	aend := p + int(alen)
	var anns []model.Sym
	for p < aend {
		sid, n, e := d.varUint(p, aend)
		if e != nil {
			if ee, ok := e.(*Error); ok && ee.Kind == Truncated {
				ee.Kind = Invalid
			}
			return v, wend, false, e
		}
		s, e := d.sym(sid, p, "annotation")
		if e != nil {
			return v, wend, false, e
		}
		anns = append(anns, s)
		p = n
	}
	if d.b[p]>>4 == 14 {
		return v, wend, false, d.errf(Invalid, p, "annotation wrapper directly inside an annotation wrapper")
	}
	inner, n, isNop, e := d.value(p, wend, depth)
	if e != nil {
		if ee, ok := e.(*Error); ok && ee.Kind == Truncated && wend < len(d.b) {
			ee.Kind = Invalid
		}
		return v, wend, false, e
	}
	if isNop {
		return v, wend, false, d.errf(Invalid, p, "annotation wrapper around a NOP pad")
	}
	if n != wend {
		return v, wend, false, d.errf(Invalid, p, "wrapped value ends at %d but the wrapper ends at %d", n, wend)
	}
	inner.Ann = append(anns, inner.Ann...)
	return inner, wend, false, nil
}

func (d *decoder) timestamp(pos, end, start int) (model.TS, error) {
	var ts model.TS
	if pos >= end {
		return ts, d.errf(Invalid, start, "empty timestamp")
	}
	off, negZero, p, err := d.varInt(pos, end)
	if err != nil {
		return ts, inval(err)
	}
	if p >= end {
		return ts, d.errf(Invalid, start, "timestamp without a year")
	}
	year, p, err := d.varUint(p, end)
	if err != nil {
		return ts, inval(err)
	}
	fields := []uint64{year, 1, 1, 0, 0, 0}
	ts.Prec = model.PYear
	precs := []model.Prec{model.PYear, model.PMonth, model.PDay, model.PMinute, model.PMinute, model.PSecond}
	for i := 1; i < 6 && p < end; i++ {
		fields[i], p, err = d.varUint(p, end)
		if err != nil {
			return ts, inval(err)
		}
		ts.Prec = precs[i]
		if i == 3 && p >= end {
			return ts, d.errf(Invalid, start, "timestamp with hour but no minute")
		}
	}
	hasFrac := false
	var fexp int64
	var fcoef *big.Int
	fneg := false
	if p < end {
		hasFrac = true
		fexp, _, p, err = d.varInt(p, end)
		if err != nil {
			return ts, inval(err)
		}
		fcoef, fneg = intField(d.b[p:end])
		p = end
	}
	if year > 10000 || fields[1] > 12 || fields[2] > 31 || fields[3] > 23 || fields[4] > 59 || fields[5] > 59 {
		return ts, d.errf(Invalid, start, "timestamp field out of range: %v", fields)
	}
	if fields[1] < 1 || fields[2] < 1 {
		return ts, d.errf(Invalid, start, "timestamp month or day 0")
	}
	y, mo, da, h, mi := int(year), int(fields[1]), int(fields[2]), int(fields[3]), int(fields[4])
	if da > model.DaysInMonth(y, mo) {
		return ts, d.errf(Invalid, start, "day %d does not exist in %04d-%02d", da, y, mo)
	}
	if off <= -1440 || off >= 1440 {
		return ts, d.errf(Invalid, start, "offset %d minutes out of range", off)
	}
	ts.Sec = int(fields[5])
	if ts.Prec >= model.PMinute {
		ts.OffsetKnown = !negZero
		ts.Offset = int(off)
		if ts.OffsetKnown && off != 0 {
			y, mo, da, h, mi = model.ShiftMinutes(y, mo, da, h, mi, int(off))
		}
	}
	ts.Year, ts.Month, ts.Day, ts.Hour, ts.Min = y, mo, da, h, mi
	if y < 1 || y > 9999 {
		return ts, d.errf(Invalid, start, "local year %d out of range", y)
	}
	if hasFrac {
		if ts.Prec != model.PSecond {
			return ts, d.errf(Invalid, start, "fraction without seconds")
		}
		if fcoef.Sign() < 0 || (fneg && false) {
			return ts, d.errf(Invalid, start, "negative fraction")
		}
		if fexp >= 0 {
			if fcoef.Sign() != 0 {
				return ts, d.errf(Invalid, start, "fraction >= 1")
			}
			// coefficient zero, exponent >= 0: ignored
		} else {
			digits := -fexp
			// fraction < 1  <=>  coef < 10^digits
			if digits < 4000 && fcoef.Cmp(new(big.Int).Exp(big.NewInt(10), big.NewInt(digits), nil)) >= 0 {
				return ts, d.errf(Invalid, start, "fraction >= 1")
			}
			if digits > 9 {
				return ts, d.errf(Unsupported, start, "sub-nanosecond fraction (%d digits)", digits)
			}
			scale := int64(1)
			for i := digits; i < 9; i++ {
				scale *= 10
			}
			ts.FracDigits = int(digits)
			ts.Nanos = int(fcoef.Int64() * scale)
		}
	}
	return ts, nil
}

func inval(err error) error {
	if e, ok := err.(*Error); ok && e.Kind == Truncated {
		// inside a value whose extent is known, running out of bytes is a
		// malformed field, not a truncated input
		e.Kind = Invalid
	}
	return err
}
