// Package refbin is the harness's reference implementation of Ion 1.0 binary:
// a strict decoder, an encoder with free representation choices, and a model of
// symbol-table ID spaces. It is written from the Ion specification and imports
// only the standard library and the harness model.
package refbin

import (
	"fmt"
)

// Slot is one symbol-table slot: text, or undefined text.
type Slot struct {
	Text  string
	Known bool
}

// K makes a slot with text.
func K(text string) Slot { return Slot{text, true} }

// SystemSymbols are the Ion 1.0 system symbols, IDs 1..9.
var SystemSymbols = []string{"$ion", "$ion_1_0", "$ion_symbol_table", "name", "version", "imports", "symbols", "max_id", "$ion_shared_symbol_table"}

// Import is a declared import of a shared table.
type Import struct {
	Name    string
	Version int
	MaxID   int // -1 = not declared
}

// Shared is a shared symbol table in a catalog.
type Shared struct {
	Name    string
	Version int
	Slots   []Slot
}

// Catalog resolves imports. nil catalog = nothing found.
type Catalog []Shared

// Exact finds (name, version).
func (c Catalog) Exact(name string, version int) *Shared {
	for i := range c {
		if c[i].Name == name && c[i].Version == version {
			return &c[i]
		}
	}
	return nil
}

// Latest finds the highest version of name.
func (c Catalog) Latest(name string) *Shared {
	var best *Shared
	for i := range c {
		if c[i].Name == name && (best == nil || c[i].Version > best.Version) {
			best = &c[i]
		}
	}
	return best
}

// SymTab is an ID space: Slots[0] is $0.
type SymTab struct {
	Slots   []Slot
	Imports []Import // declared imports (for reporting)
	NLocal  int      // number of local symbols at the end
}

// NewSystemTab returns the system table.
func NewSystemTab() *SymTab {
	t := &SymTab{Slots: []Slot{{}}}
	for _, s := range SystemSymbols {
		t.Slots = append(t.Slots, K(s))
	}
	return t
}

// MaxID returns the largest defined ID.
func (t *SymTab) MaxID() int { return len(t.Slots) - 1 }

// Clone copies t.
func (t *SymTab) Clone() *SymTab {
	return &SymTab{Slots: append([]Slot{}, t.Slots...), Imports: append([]Import{}, t.Imports...), NLocal: t.NLocal}
}

// Lookup returns the slot of id.
func (t *SymTab) Lookup(id uint64) (Slot, bool) {
	if id >= uint64(len(t.Slots)) {
		return Slot{}, false
	}
	return t.Slots[id], true
}

// FindAll returns every ID whose slot carries text.
func (t *SymTab) FindAll(text string) []int {
	var out []int
	for i := 1; i < len(t.Slots); i++ {
		if t.Slots[i].Known && t.Slots[i].Text == text {
			out = append(out, i)
		}
	}
	return out
}

// Lowest returns the lowest ID carrying text, or 0.
func (t *SymTab) Lowest(text string) int {
	for i := 1; i < len(t.Slots); i++ {
		if t.Slots[i].Known && t.Slots[i].Text == text {
			return i
		}
	}
	return 0
}

// ImportError says an import could not be resolved.
type ImportError struct{ Msg string }

func (e *ImportError) Error() string { return e.Msg }

// BuildLocal builds the ID space of a local symbol table: system symbols, then
// each import with exactly its max_id slots, then locals.
func BuildLocal(imports []Import, locals []Slot, cat Catalog) (*SymTab, error) {
	t := NewSystemTab()
	for _, imp := range imports {
		exact := cat.Exact(imp.Name, imp.Version)
		src := exact
		if src == nil {
			src = cat.Latest(imp.Name)
		}
		n := imp.MaxID
		if n < 0 {
			if exact == nil {
				return nil, &ImportError{fmt.Sprintf("import %s/%d has no max_id and no exact match in the catalog", imp.Name, imp.Version)}
			}
			n = len(exact.Slots)
		}
		for i := 0; i < n; i++ {
			if src != nil && i < len(src.Slots) {
				t.Slots = append(t.Slots, src.Slots[i])
			} else {
				t.Slots = append(t.Slots, Slot{})
			}
		}
		t.Imports = append(t.Imports, Import{imp.Name, imp.Version, n})
	}
	t.Slots = append(t.Slots, locals...)
	t.NLocal = len(locals)
	return t, nil
}

// Append returns t extended by locals (LST append semantics).
func (t *SymTab) Append(locals []Slot) *SymTab {
	n := t.Clone()
	n.Slots = append(n.Slots, locals...)
	n.NLocal += len(locals)
	return n
}
