package refbin

import (
	"fmt"
	"math"
	"math/big"
	"sort"

	"verif/h/model"
)

// Chooser supplies representation decisions; option 0 is always the canonical
// (shortest / most common) representation.
type Chooser interface {
	Intn(n int) int
}

type canonical struct{}

func (canonical) Intn(int) int { return 0 }

// Enc encodes model values into Ion 1.0 binary with free representation choices.
type Enc struct {
	C        Chooser
	NonCanon int            // number of non-canonical choices taken
	Choices  map[string]int // per-dimension counters of non-canonical choices
	// NoPadStructNOP etc. could go here as exclusion switches.
	Off map[string]bool // switched-off dimensions (known findings)
	// SymLowestOnly forces the lowest SID for a text.
	SymLowestOnly bool
	// UndefinedSlots: a symbol with unknown text may be encoded with the ID of a
	// slot whose text is undefined (not only 0).
	UndefinedSlots bool
	// LSTOpenContent: symbol tables and import descriptors may carry fields a
	// reader must ignore (including field names without text).
	LSTOpenContent bool
}

// NewEnc makes an encoder; nil chooser = canonical.
func NewEnc(c Chooser) *Enc {
	if c == nil {
		c = canonical{}
	}
	return &Enc{C: c, Choices: map[string]int{}, Off: map[string]bool{}}
}

func (e *Enc) choose(dim string, n int) int {
	if n <= 1 || e.Off[dim] {
		return 0
	}
	k := e.C.Intn(n)
	if k != 0 {
		e.NonCanon++
		e.Choices[dim]++
	}
	return k
}

// rarely returns true only when two consecutive draws are non-zero-ish, to keep
// exotic choices from dominating: choose(dim, n) with low weight.
func (e *Enc) rarely(dim string, oneIn int) bool {
	if e.Off[dim] {
		return false
	}
	if e.C.Intn(oneIn) == oneIn-1 && oneIn > 1 {
		e.NonCanon++
		e.Choices[dim]++
		return true
	}
	return false
}

// IVM is the Ion 1.0 version marker.
var IVM = []byte{0xE0, 0x01, 0x00, 0xEA}

// VarUInt appends v with pad extra leading zero groups.
func VarUInt(b []byte, v uint64, pad int) []byte {
	var tmp [10]byte
	i := len(tmp)
	i--
	tmp[i] = byte(v&0x7F) | 0x80
	v >>= 7
	for v > 0 {
		i--
		tmp[i] = byte(v & 0x7F)
		v >>= 7
	}
	n := len(tmp) - i
	for pad > 0 && n+pad > 10 {
		pad--
	}
	for j := 0; j < pad; j++ {
		b = append(b, 0)
	}
	return append(b, tmp[i:]...)
}

// VarInt appends v (negZero encodes -0) with pad extra groups.
func VarInt(b []byte, v int64, negZero bool, pad int) []byte {
	neg := v < 0 || negZero
	m := uint64(v)
	if v < 0 {
		m = uint64(-v)
	}
	// groups of 7 bits, first group has 6 bits
	var groups []byte
	groups = append(groups, byte(m&0x7F))
	m >>= 7
	for m > 0 {
		groups = append(groups, byte(m&0x7F))
		m >>= 7
	}
	// groups is little-endian; top group must fit in 6 bits
	if groups[len(groups)-1]&0x40 != 0 {
		groups = append(groups, 0)
	}
	for pad > 0 && len(groups) < 10 {
		groups = append(groups, 0)
		pad--
	}
	for i := len(groups) - 1; i >= 0; i-- {
		c := groups[i]
		if i == len(groups)-1 && neg {
			c |= 0x40
		}
		if i == 0 {
			c |= 0x80
		}
		b = append(b, c)
	}
	return b
}

func (e *Enc) vu(b []byte, v uint64, dim string) []byte {
	pad := 0
	if e.rarely(dim, 12) {
		pad = 1 + e.C.Intn(3)
	}
	return VarUInt(b, v, pad)
}

// tag appends a type descriptor for a body of n bytes.
func (e *Enc) tag(b []byte, T byte, n int) []byte {
	if n < 14 && !(T == 13 && n == 1) {
		if e.choose("len.varuint-for-short", 5) != 4 {
			return append(b, T<<4|byte(n))
		}
	}
	b = append(b, T<<4|14)
	return e.vu(b, uint64(n), "len.padded-varuint")
}

// nop appends a NOP pad.
func (e *Enc) nop(b []byte) []byte {
	switch e.C.Intn(5) {
	case 0:
		return append(b, 0x00)
	case 1:
		return append(b, 0x01, 0xFF)
	case 2:
		return append(b, 0x02, 0xFE, 0x0F)
	case 3:
		n := 14 + e.C.Intn(20)
		b = append(b, 0x0E)
		b = VarUInt(b, uint64(n), 0)
		for i := 0; i < n; i++ {
			b = append(b, byte(0xE0+i)) // looks like IVMs/wrappers: must be skipped, not parsed
		}
		return b
	default:
		n := 3 + e.C.Intn(11)
		b = append(b, byte(n))
		for i := 0; i < n; i++ {
			b = append(b, 0xEA)
		}
		return b
	}
}

// MissingSymbolError reports text that the table cannot express.
type MissingSymbolError struct{ Text string }

func (m *MissingSymbolError) Error() string {
	return fmt.Sprintf("refbin: text %q not in symbol table", m.Text)
}

func (e *Enc) sid(s model.Sym, tab *SymTab) (uint64, error) {
	if !s.Known {
		if e.UndefinedSlots {
			ids := []int{0}
			for i := 1; i < len(tab.Slots)-tab.NLocal; i++ { // import placeholders only
				if !tab.Slots[i].Known {
					ids = append(ids, i)
				}
			}
			return uint64(ids[e.C.Intn(len(ids))]), nil
		}
		return 0, nil
	}
	ids := tab.FindAll(s.Text)
	if len(ids) == 0 {
		return 0, &MissingSymbolError{s.Text}
	}
	if e.SymLowestOnly || len(ids) == 1 {
		return uint64(ids[0]), nil
	}
	return uint64(ids[e.choose("sym.non-lowest-id", len(ids))]), nil
}

func uintBytes(v uint64) []byte {
	if v == 0 {
		return nil
	}
	var out []byte
	for v > 0 {
		out = append([]byte{byte(v)}, out...)
		v >>= 8
	}
	return out
}

// intFieldBytes encodes a sign-magnitude Int field.
func (e *Enc) intFieldBytes(c *big.Int, negZero bool, dim string) []byte {
	if c.Sign() == 0 && !negZero {
		// zero: empty, or explicit zero bytes
		n := 0
		if e.rarely(dim+".explicit-zero", 6) {
			n = 1 + e.C.Intn(2)
		}
		return make([]byte, n)
	}
	mag := new(big.Int).Abs(c).Bytes()
	if len(mag) == 0 {
		mag = []byte{0}
	}
	if mag[0]&0x80 != 0 {
		mag = append([]byte{0}, mag...)
	}
	if e.rarely(dim+".leading-zero-bytes", 8) {
		pad := 1 + e.C.Intn(3)
		mag = append(make([]byte, pad), mag...)
	}
	if c.Sign() < 0 || negZero {
		mag[0] |= 0x80
	}
	return mag
}

// Value appends the encoding of v.
func (e *Enc) Value(b []byte, v model.Value, tab *SymTab) ([]byte, error) {
	if len(v.Ann) > 0 {
		inner := v
		inner.Ann = nil
		body, err := e.Value(nil, inner, tab)
		if err != nil {
			return b, err
		}
		var ann []byte
		for _, a := range v.Ann {
			id, err := e.sid(a, tab)
			if err != nil {
				return b, err
			}
			ann = e.vu(ann, id, "annot.padded-sid")
		}
		var w []byte
		w = e.vu(w, uint64(len(ann)), "annot.padded-length")
		w = append(w, ann...)
		w = append(w, body...)
		b = e.tag(b, 14, len(w))
		return append(b, w...), nil
	}
	if v.IsNull {
		T := [...]byte{0, 1, 2, 4, 5, 6, 7, 8, 9, 10, 11, 12, 13}[v.Kind]
		if v.Kind == model.Int && e.choose("null.int-as-3F", 4) == 3 {
			T = 3
		}
		return append(b, T<<4|15), nil
	}
	switch v.Kind {
	case model.Bool:
		if v.Bool {
			return append(b, 0x11), nil
		}
		return append(b, 0x10), nil
	case model.Int:
		mag := new(big.Int).Abs(v.Int).Bytes()
		T := byte(2)
		if v.Int.Sign() < 0 {
			T = 3
		}
		if e.rarely("int.leading-zero-bytes", 8) {
			mag = append(make([]byte, 1+e.C.Intn(3)), mag...)
		}
		b = e.tag(b, T, len(mag))
		return append(b, mag...), nil
	case model.Float:
		f := v.Float
		bits := math.Float64bits(f)
		if bits == 0 {
			switch e.choose("float.zero-explicit", 4) {
			case 2:
				return append(b, 0x44, 0, 0, 0, 0), nil
			case 3:
				return append(b, 0x48, 0, 0, 0, 0, 0, 0, 0, 0), nil
			}
			return append(b, 0x40), nil
		}
		f32 := float32(f)
		exact := !math.IsNaN(f) && math.Float64bits(float64(f32)) == bits
		if math.IsNaN(f) {
			// NaN: any NaN is NaN; 32-bit quiet NaN allowed
			exact = true
			f32 = float32(math.NaN())
		}
		if exact && e.choose("float.32bit", 2) == 1 {
			u := math.Float32bits(f32)
			return append(b, 0x44, byte(u>>24), byte(u>>16), byte(u>>8), byte(u)), nil
		}
		b = append(b, 0x48)
		for i := 7; i >= 0; i-- {
			b = append(b, byte(bits>>(8*uint(i))))
		}
		return b, nil
	case model.Decimal:
		d := v.Dec
		if d.Coef.Sign() == 0 && d.Exp == 0 && !d.NegZero && e.choose("decimal.zero-explicit", 3) == 0 {
			return append(b, 0x50), nil
		}
		var body []byte
		pad := 0
		if e.rarely("decimal.padded-exponent", 10) {
			pad = 1 + e.C.Intn(2)
		}
		body = VarInt(body, d.Exp, false, pad)
		body = append(body, e.intFieldBytes(d.Coef, d.NegZero, "decimal.coef")...)
		b = e.tag(b, 5, len(body))
		return append(b, body...), nil
	case model.Timestamp:
		body := e.timestampBody(v.TS)
		b = e.tag(b, 6, len(body))
		return append(b, body...), nil
	case model.Symbol:
		id, err := e.sid(v.Sym, tab)
		if err != nil {
			return b, err
		}
		body := uintBytes(id)
		if e.rarely("symbol.leading-zero-bytes", 10) {
			body = append(make([]byte, 1+e.C.Intn(2)), body...)
		}
		b = e.tag(b, 7, len(body))
		return append(b, body...), nil
	case model.String:
		b = e.tag(b, 8, len(v.Text))
		return append(b, v.Text...), nil
	case model.Clob:
		b = e.tag(b, 9, len(v.Bytes))
		return append(b, v.Bytes...), nil
	case model.Blob:
		b = e.tag(b, 10, len(v.Bytes))
		return append(b, v.Bytes...), nil
	case model.List, model.Sexp:
		var body []byte
		for _, c := range v.Elems {
			if e.rarely("nop.in-sequence", 12) {
				body = e.nop(body)
			}
			var err error
			body, err = e.Value(body, c, tab)
			if err != nil {
				return b, err
			}
		}
		if e.rarely("nop.in-sequence", 16) {
			body = e.nop(body)
		}
		T := byte(11)
		if v.Kind == model.Sexp {
			T = 12
		}
		b = e.tag(b, T, len(body))
		return append(b, body...), nil
	case model.Struct:
		type fld struct {
			id  uint64
			enc []byte
			idx int
		}
		var fs []fld
		for i, f := range v.Fields {
			id, err := e.sid(f.Name, tab)
			if err != nil {
				return b, err
			}
			enc, err := e.Value(nil, f.Val, tab)
			if err != nil {
				return b, err
			}
			fs = append(fs, fld{id, enc, i})
		}
		sortedOK := len(fs) > 0 && sort.SliceIsSorted(fs, func(i, j int) bool { return fs[i].id < fs[j].id })
		useSorted := sortedOK && e.choose("struct.sorted-form", 3) == 2
		var body []byte
		for _, f := range fs {
			if !useSorted && e.rarely("nop.in-struct", 10) {
				// NOP pad as a field value with an arbitrary (valid) field id
				body = VarUInt(body, uint64(e.C.Intn(tab.MaxID()+1)), 0)
				body = e.nop(body)
			}
			body = e.vu(body, f.id, "struct.padded-field-id")
			body = append(body, f.enc...)
		}
		if !useSorted && e.rarely("nop.in-struct", 16) {
			body = VarUInt(body, 0, 0)
			body = e.nop(body)
		}
		if useSorted {
			b = append(b, 0xD1)
			b = e.vu(b, uint64(len(body)), "len.padded-varuint")
			return append(b, body...), nil
		}
		if len(body) == 1 {
			// impossible for a valid struct, defensive
			return b, fmt.Errorf("refbin: struct body of 1 byte")
		}
		b = e.tag(b, 13, len(body))
		return append(b, body...), nil
	}
	return b, fmt.Errorf("refbin: cannot encode kind %v", v.Kind)
}

func (e *Enc) timestampBody(t model.TS) []byte {
	var b []byte
	y, mo, d, h, mi := t.UTCFields()
	switch {
	case t.Prec < model.PMinute:
		// date-only precisions: offset is unknown (-0); some writers emit 0
		if e.choose("ts.date-offset-zero", 3) == 2 {
			b = VarInt(b, 0, false, 0)
		} else {
			b = VarInt(b, 0, true, 0)
		}
	case !t.OffsetKnown:
		b = VarInt(b, 0, true, 0)
	default:
		pad := 0
		if e.rarely("ts.padded-offset", 10) {
			pad = 1
		}
		b = VarInt(b, int64(t.Offset), false, pad)
	}
	b = e.vu(b, uint64(y), "ts.padded-field")
	if t.Prec >= model.PMonth {
		b = e.vu(b, uint64(mo), "ts.padded-field")
	}
	if t.Prec >= model.PDay {
		b = e.vu(b, uint64(d), "ts.padded-field")
	}
	if t.Prec >= model.PMinute {
		b = e.vu(b, uint64(h), "ts.padded-field")
		b = e.vu(b, uint64(mi), "ts.padded-field")
	}
	if t.Prec >= model.PSecond {
		b = e.vu(b, uint64(t.Sec), "ts.padded-field")
		if t.FracDigits > 0 {
			scale := 1
			for i := t.FracDigits; i < 9; i++ {
				scale *= 10
			}
			coef := big.NewInt(int64(t.Nanos / scale))
			b = VarInt(b, int64(-t.FracDigits), false, 0)
			b = append(b, e.intFieldBytes(coef, false, "ts.frac-coef")...)
		} else {
			switch e.choose("ts.ignorable-fraction", 6) {
			case 4:
				b = VarInt(b, 0, false, 0) // exponent 0, no coefficient: fraction 0 ignored
			case 5:
				b = VarInt(b, int64(e.C.Intn(3)), false, 0)
				b = append(b, 0x00)
			}
		}
	}
	return b
}

// LST appends a local symbol table struct (encoded against the system table
// IDs, which every table contains).
func (e *Enc) LST(b []byte, imports []Import, symbols []Slot, appendMode bool) []byte {
	var body []byte
	addImports := func() {
		if appendMode {
			body = VarUInt(body, 6, 0)
			body = append(body, 0x71, 0x03)
			return
		}
		if len(imports) == 0 {
			return
		}
		var list []byte
		for _, imp := range imports {
			var s []byte
			s = VarUInt(s, 4, 0)
			s = e.tag(s, 8, len(imp.Name))
			s = append(s, imp.Name...)
			s = VarUInt(s, 5, 0)
			vb := uintBytes(uint64(imp.Version))
			s = append(s, 0x20|byte(len(vb)))
			s = append(s, vb...)
			if imp.MaxID >= 0 {
				s = VarUInt(s, 8, 0)
				mb := uintBytes(uint64(imp.MaxID))
				s = append(s, 0x20|byte(len(mb)))
				s = append(s, mb...)
			} else if e.LSTOpenContent && e.C.Intn(3) == 0 {
				// max_id present but undefined: null.int, null, -1
				s = append(s, 0x88)
				s = append(s, [][]byte{{0x2F}, {0x0F}, {0x31, 0x01}}[e.C.Intn(3)]...)
			}
			if e.LSTOpenContent && e.C.Intn(3) == 0 {
				s = append(s, [][]byte{{0x80, 0x21, 0x03}, {0x87, 0xB0}}[e.C.Intn(2)]...)
			}
			list = e.tag(list, 13, len(s))
			list = append(list, s...)
		}
		body = VarUInt(body, 6, 0)
		body = e.tag(body, 11, len(list))
		body = append(body, list...)
	}
	addSymbols := func() {
		if symbols == nil {
			return
		}
		var list []byte
		for _, s := range symbols {
			if !s.Known {
				// undefined slot: null, null.string, or a non-string
				switch e.C.Intn(3) {
				case 0:
					list = append(list, 0x0F)
				case 1:
					list = append(list, 0x8F)
				default:
					list = append(list, 0x21, 0x07)
				}
				continue
			}
			list = e.tag(list, 8, len(s.Text))
			list = append(list, s.Text...)
		}
		body = VarUInt(body, 7, 0)
		body = e.tag(body, 11, len(list))
		body = append(body, list...)
	}
	if e.LSTOpenContent && e.C.Intn(2) == 0 {
		// open content: a field whose name has no text ($0), a field a symbol table does not define
		body = append(body, [][]byte{{0x80, 0x21, 0x01}, {0x84, 0x81, 'x'}, {0x80, 0xB2, 0x81, 'n'}}[e.C.Intn(3)]...)
	}
	if e.choose("lst.symbols-before-imports", 3) == 2 {
		addSymbols()
		addImports()
	} else {
		addImports()
		addSymbols()
	}
	if e.LSTOpenContent && e.C.Intn(2) == 0 {
		body = append(body, [][]byte{{0x80, 0x0F}, {0x85, 0x21, 0x03}, {0x88, 0x21, 0x02}}[e.C.Intn(3)]...)
	}
	var st []byte
	if len(body) == 1 {
		st = append(st, 0xDE, 0x81)
	} else {
		st = e.tag(st, 13, len(body))
	}
	st = append(st, body...)
	var w []byte
	w = append(w, 0x81, 0x83)
	w = append(w, st...)
	b = e.tag(b, 14, len(w))
	return append(b, w...)
}

// CollectSymbols returns the distinct symbol texts used in vals, in first-use order.
func CollectSymbols(vals []model.Value) []string {
	seen := map[string]bool{}
	var out []string
	add := func(s model.Sym) {
		if s.Known && !seen[s.Text] {
			seen[s.Text] = true
			out = append(out, s.Text)
		}
	}
	for _, v := range vals {
		v.Walk(func(x model.Value) {
			for _, a := range x.Ann {
				add(a)
			}
			if x.Kind == model.Symbol && !x.IsNull {
				add(x.Sym)
			}
			for _, f := range x.Fields {
				add(f.Name)
			}
		})
	}
	return out
}

// Doc encodes a whole stream: IVM, a local symbol table declaring every text
// the values need (system symbols may be re-declared or used by system ID), the
// values, with optional NOP pads and repeated IVMs between top-level values.
func (e *Enc) Doc(vals []model.Value) ([]byte, error) {
	texts := CollectSymbols(vals)
	var locals []Slot
	for _, t := range texts {
		isSys := false
		for _, s := range SystemSymbols {
			if s == t {
				isSys = true
			}
		}
		if isSys && e.choose("lst.redeclare-system-symbol", 3) != 2 {
			continue
		}
		locals = append(locals, K(t))
		if e.rarely("lst.duplicate-symbol", 10) {
			locals = append(locals, K(t))
		}
		if e.rarely("lst.undefined-slot", 12) {
			locals = append(locals, Slot{})
		}
	}
	tab, _ := BuildLocal(nil, locals, nil)
	b := append([]byte{}, IVM...)
	emitTable := func() {
		if len(locals) == 0 {
			return
		}
		switch e.choose("lst.split-or-append", 4) {
		case 2:
			// the context is the system table here, so appending to it is
			// the same as replacing it
			b = e.LST(b, nil, locals, true)
		case 3:
			k := e.C.Intn(len(locals) + 1)
			b = e.LST(b, nil, locals[:k:k], false)
			b = e.LST(b, nil, locals[k:], true)
		default:
			b = e.LST(b, nil, locals, false)
		}
	}
	emitTable()
	for _, v := range vals {
		if e.rarely("nop.top-level", 10) {
			b = e.nop(b)
		}
		if e.rarely("ivm.repeated", 14) {
			b = append(b, IVM...)
			// the marker resets the context: declare the symbols again, in another
			// order, so that a reader that kept the old table resolves wrongly
			if len(locals) > 1 {
				k := 1 + e.C.Intn(len(locals)-1)
				locals = append(append([]Slot{}, locals[k:]...), locals[:k]...)
				tab, _ = BuildLocal(nil, locals, nil)
			}
			emitTable()
		}
		var err error
		b, err = e.Value(b, v, tab)
		if err != nil {
			return nil, err
		}
	}
	if e.rarely("nop.top-level", 14) {
		b = e.nop(b)
	}
	return b, nil
}
