package reftext

import (
	"encoding/base64"
	"fmt"
	"math"
	"math/big"
	"regexp"
	"strconv"
	"strings"
	"unicode/utf8"

	"verif/h/model"
	"verif/h/refbin"
)

// Chooser supplies spelling decisions; option 0 is the canonical spelling.
type Chooser interface {
	Intn(n int) int
}

type canonical struct{}

func (canonical) Intn(int) int { return 0 }

// Printer renders model values as Ion text with free spelling choices.
type Printer struct {
	C        Chooser
	NonCanon int
	Choices  map[string]int
	Off      map[string]bool
	b        []byte
	tab      *refbin.SymTab
	// afterLong: the last significant token written was a long string, so a
	// following long string would concatenate with it.
	afterLong bool
	inSpace   bool
	// lastTopEnd: end of the last top-level value printed by Top (-1: none / something else followed)
	lastTopEnd int
	identEnd   int // len(b) right after the last keyword / identifier value, else stale
	// bareIVM: the symbol value being printed may be spelled $ion_1_0 without quotes
	bareIVM bool
	// SIDOneIn: a symbol whose text the current table defines is spelled $n with
	// probability 1/SIDOneIn (default 5).
	SIDOneIn int
	// UndefinedSlots: a symbol with unknown text may be spelled $n for a slot n
	// of the current table whose text is undefined (not only $0).
	UndefinedSlots bool
}

// Begin starts a new stream (system symbol table in force).
func (p *Printer) Begin() {
	p.b = p.b[:0]
	p.tab = refbin.NewSystemTab()
	p.lastTopEnd = -1
	p.identEnd = -1
}

// SetTable tells the printer which symbol table is in force from here on.
func (p *Printer) SetTable(t *refbin.SymTab) { p.tab = t }

// Top prints one top-level value followed by separating whitespace.
func (p *Printer) Top(v model.Value) {
	p.space(false)
	start := len(p.b)
	p.value(v, ctxTop)
	if p.lastTopEnd > 0 {
		start = p.abut(p.lastTopEnd, start)
	}
	p.lastTopEnd = len(p.b)
	p.space(true)
}

// identToken: a keyword (null, null.int, true, nan, ...) or an identifier symbol.
var identToken = regexp.MustCompile(`^[A-Za-z_$][A-Za-z0-9_$]*(\.[a-z]+)?$`)

// abut removes the whitespace b[wsStart:next] between two values where the
// grammar needs none: the second starts with an opening bracket or a double
// quote, or the first ends with a closing bracket or a double quote (numbers,
// timestamps and keywords end at any of those stop characters). Returns the new
// start of the second value.
func (p *Printer) abut(wsStart, next int) int {
	if wsStart <= 0 || next <= wsStart || next >= len(p.b) {
		return next
	}
	a, z := p.b[wsStart-1], p.b[next]
	if a == '\'' || z == '\'' || z == '/' {
		return next
	}
	if !(strings.IndexByte("([{\"", z) >= 0 || strings.IndexByte(")]}\"", a) >= 0) {
		return next
	}
	if !p.rarely("ws.none-between-values", 3) {
		return next
	}
	p.b = append(p.b[:wsStart], p.b[next:]...)
	if p.identEnd >= next {
		p.identEnd -= next - wsStart
	}
	return wsStart
}

// Raw writes s verbatim, followed by separating whitespace.
func (p *Printer) Raw(s string) {
	p.lastTopEnd = -1
	p.space(false)
	p.w(s)
	p.space(true)
}

// Bytes returns what was printed since Begin.
func (p *Printer) Bytes() []byte { return append([]byte{}, p.b...) }

// LST prints a local symbol table struct.
func (p *Printer) LST(imports []refbin.Import, symbols []refbin.Slot, appendMode bool, extra bool) {
	p.lastTopEnd = -1
	p.space(false)
	p.w([]string{"$ion_symbol_table", "$ion_symbol_table", "'$ion_symbol_table'", "$3"}[p.C.Intn(4)])
	p.space(false)
	p.w("::")
	p.space(false)
	p.w("{")
	first := true
	sep := func() {
		if !first {
			p.w(",")
		}
		first = false
		p.space(false)
	}
	doImports := func() {
		if appendMode {
			sep()
			p.w([]string{"imports", "$6", "'imports'", "\"imports\""}[p.C.Intn(4)])
			p.space(false)
			p.w(":")
			p.space(false)
			p.w([]string{"$ion_symbol_table", "$3", "'$ion_symbol_table'"}[p.C.Intn(3)])
			p.space(false)
			return
		}
		if len(imports) == 0 && p.C.Intn(3) != 0 {
			return
		}
		sep()
		p.w([]string{"imports", "$6"}[p.C.Intn(2)])
		p.space(false)
		p.w(":")
		p.space(false)
		p.w("[")
		for i, imp := range imports {
			if i > 0 {
				p.w(",")
			}
			p.space(false)
			p.w("{")
			p.space(false)
			p.w([]string{"name", "$4"}[p.C.Intn(2)] + ":")
			p.str(imp.Name)
			p.w(",")
			p.space(false)
			p.w([]string{"version", "$5"}[p.C.Intn(2)] + ":" + strconv.Itoa(imp.Version))
			if imp.MaxID >= 0 {
				p.w(",")
				p.space(false)
				p.w([]string{"max_id", "$8"}[p.C.Intn(2)] + ":" + strconv.Itoa(imp.MaxID))
			} else if p.C.Intn(4) == 0 {
				// a max_id that is present but undefined (null, not an int, negative)
				// is as good as none
				p.w(",")
				p.space(false)
				p.w("max_id:" + []string{"null.int", "null", "-1", "null.string", "1.0"}[p.C.Intn(5)])
			}
			if extra && p.C.Intn(3) == 0 {
				// open content inside an import descriptor
				p.w(",")
				p.space(false)
				p.w([]string{"$0:3", "comment:\"x\"", "symbols:[\"no\"]"}[p.C.Intn(3)])
			}
			p.space(false)
			p.w("}")
			p.space(false)
		}
		p.w("]")
		p.space(false)
	}
	doSymbols := func() {
		if symbols == nil {
			return
		}
		sep()
		p.w([]string{"symbols", "$7"}[p.C.Intn(2)])
		p.space(false)
		p.w(":")
		p.space(false)
		p.w("[")
		for i, s := range symbols {
			if i > 0 {
				p.w(",")
			}
			p.space(false)
			if s.Known {
				p.str(s.Text)
			} else {
				p.w([]string{"null", "null.string", "7", "sym", "[]", "null.symbol"}[p.C.Intn(6)])
			}
			p.space(false)
		}
		p.w("]")
		p.space(false)
	}
	if extra && p.C.Intn(2) == 0 {
		sep()
		p.w([]string{"foo:1", "$0:1", "foo:1"}[p.C.Intn(3)])
	}
	if p.C.Intn(3) == 2 {
		doSymbols()
		doImports()
	} else {
		doImports()
		doSymbols()
	}
	if extra {
		sep()
		p.w([]string{"name:\"x\"", "version:3", "max_id:2", "bar:[{}]", "$0:{symbols:[\"no\"]}"}[p.C.Intn(5)])
	}
	p.w("}")
	p.space(true)
}

// NewPrinter makes a printer; nil chooser = canonical.
func NewPrinter(c Chooser) *Printer {
	if c == nil {
		c = canonical{}
	}
	return &Printer{C: c, Choices: map[string]int{}, Off: map[string]bool{}, tab: refbin.NewSystemTab()}
}

func (p *Printer) choose(dim string, n int) int {
	if n <= 1 || p.Off[dim] {
		return 0
	}
	k := p.C.Intn(n)
	if k != 0 {
		p.NonCanon++
		p.Choices[dim]++
	}
	return k
}

func (p *Printer) rarely(dim string, oneIn int) bool {
	if p.Off[dim] || oneIn <= 1 {
		return false
	}
	if p.C.Intn(oneIn) == oneIn-1 {
		p.NonCanon++
		p.Choices[dim]++
		return true
	}
	return false
}

func (p *Printer) w(s string) {
	p.b = append(p.b, s...)
	if !p.inSpace {
		p.afterLong = false
	}
}

var wsChoices = []string{" ", "\t", "\n", "\r\n", "\r", "  ", " \n\t"}

// space emits whitespace/comments. required: at least one separator character
// must be produced (tokens would otherwise merge).
func (p *Printer) space(required bool) {
	p.inSpace = true
	defer func() { p.inSpace = false }()
	k := p.choose("ws.variant", 12)
	switch {
	case k == 0:
		if required {
			p.w(" ")
		}
	case k <= 6:
		p.w(wsChoices[k-1])
	case k == 7:
		if p.Off["ws.vt-ff"] {
			p.w(" ")
		} else {
			p.Choices["ws.vt-ff"]++
			p.w([]string{"\v", "\f", " \v\f "}[p.C.Intn(3)])
		}
	case k == 8:
		p.Choices["comment.block"]++
		if n := len(p.b); n > 0 && (strings.IndexByte(")]}\",", p.b[n-1]) >= 0 || n == p.identEnd) && p.C.Intn(2) == 0 {
			// directly behind a closing bracket, a double quote, a comma, a keyword
			// or an identifier: no whitespace in front of the comment
			p.Choices["comment.abutting"]++
			p.w([]string{"/**/", "/* c */", "//c\n", "/**///\n"}[p.C.Intn(4)])
			break
		}
		p.w([]string{" /**/", "\t/* c */", "\n/* * / ** // \n ' \" }} */", " /*\n*/ "}[p.C.Intn(4)])
	case k == 9:
		p.Choices["comment.line"]++
		p.w([]string{" //\n", "\n// c\n", " // ' \" /* {{ \r\n", "\t//x\r"}[p.C.Intn(4)])
	case k == 10:
		p.w("\n\n")
	default:
		p.Choices["comment.block"]++
		p.w(" /* a */ /* b */ ")
	}
}

// Doc renders a whole stream. With some probability a local symbol table is
// declared first so that $n spellings can be used.
func (p *Printer) Doc(vals []model.Value) []byte {
	p.b = p.b[:0]
	p.tab = refbin.NewSystemTab()
	if p.rarely("ivm.leading", 8) {
		p.w("$ion_1_0")
		p.space(true)
	}
	if texts := refbin.CollectSymbols(vals); len(texts) > 0 && p.rarely("lst.declared", 4) {
		var locals []refbin.Slot
		for _, t := range texts {
			if p.C.Intn(3) != 0 {
				locals = append(locals, refbin.K(t))
			}
		}
		if len(locals) > 0 {
			p.space(false)
			p.w("$ion_symbol_table")
			p.space(false)
			p.w("::")
			p.space(false)
			p.w("{")
			p.space(false)
			p.w("symbols")
			p.space(false)
			p.w(":")
			p.space(false)
			p.w("[")
			for i, s := range locals {
				if i > 0 {
					p.w(",")
				}
				p.space(false)
				p.str(s.Text)
				p.space(false)
			}
			p.w("]")
			p.space(false)
			p.w("}")
			p.space(true)
			p.tab, _ = refbin.BuildLocal(nil, locals, nil)
		}
	}
	prevEnd := -1
	for i, v := range vals {
		if i > 0 {
			p.space(true)
		} else {
			p.space(false)
		}
		start := len(p.b)
		p.value(v, ctxTop)
		if i > 0 {
			p.abut(prevEnd, start)
		}
		prevEnd = len(p.b)
	}
	switch p.choose("eof.trailing", 4) {
	case 1:
		p.w("\n")
	case 2:
		p.w(" // trailing comment without newline")
	case 3:
		p.w(" /* end */")
	}
	return append([]byte{}, p.b...)
}

func (p *Printer) annotations(anns []model.Sym) {
	for _, a := range anns {
		p.symbol(a, false, true)
		p.space(false)
		p.w("::")
		p.space(false)
	}
}

var nullNames = [...]string{"null", "bool", "int", "float", "decimal", "timestamp", "symbol", "string", "clob", "blob", "list", "sexp", "struct"}

func (p *Printer) value(v model.Value, c ctx) {
	p.annotations(v.Ann)
	if v.IsNull || v.Kind == model.Bool || v.Kind == model.Symbol {
		// remember where a keyword or identifier ends: a comment may follow it
		// with no whitespace in between (space, below)
		start := len(p.b)
		defer func() {
			if identToken.Match(p.b[start:]) {
				p.identEnd = len(p.b)
			}
		}()
	}
	if v.IsNull {
		if v.Kind == model.Null {
			if p.choose("null.null-form", 3) == 2 {
				p.w("null.null")
			} else {
				p.w("null")
			}
			return
		}
		p.w("null." + nullNames[v.Kind])
		return
	}
	switch v.Kind {
	case model.Bool:
		if v.Bool {
			p.w("true")
		} else {
			p.w("false")
		}
	case model.Int:
		p.intLit(v.Int)
	case model.Float:
		p.floatLit(v.Float)
	case model.Decimal:
		p.decLit(v.Dec)
	case model.Timestamp:
		p.tsLit(v.TS)
	case model.Symbol:
		// a version-marker-shaped symbol is a marker only when it stands unquoted,
		// unannotated and at top level: anywhere else it may be spelled bare
		p.bareIVM = len(v.Ann) > 0 || c != ctxTop
		p.symbol(v.Sym, c == ctxSexp, false)
		p.bareIVM = false
	case model.String:
		p.str(v.Text)
	case model.Clob:
		p.clob(v.Bytes)
	case model.Blob:
		p.blob(v.Bytes)
	case model.List:
		p.w("[")
		for i, e := range v.Elems {
			if i > 0 {
				p.w(",")
			}
			p.space(false)
			p.value(e, ctxList)
			p.space(false)
		}
		if len(v.Elems) > 0 && p.rarely("comma.trailing", 6) {
			p.w(",")
		}
		p.space(false)
		p.w("]")
	case model.Sexp:
		p.w("(")
		prevEnd := -1
		for i, e := range v.Elems {
			p.space(i > 0)
			start := len(p.b)
			p.value(e, ctxSexp)
			if i > 0 {
				p.abut(prevEnd, start)
			}
			prevEnd = len(p.b)
		}
		// an operator symbol directly before ')' is fine; keep optional space
		p.space(false)
		p.w(")")
	case model.Struct:
		p.w("{")
		for i, f := range v.Fields {
			if i > 0 {
				p.w(",")
			}
			p.space(false)
			p.fieldName(f.Name)
			p.space(false)
			p.w(":")
			p.space(false)
			p.value(f.Val, ctxStruct)
			p.space(false)
		}
		if len(v.Fields) > 0 && p.rarely("comma.trailing", 6) {
			p.w(",")
		}
		p.space(false)
		p.w("}")
	}
}

// underscores inserts single underscores between some digits.
func (p *Printer) underscores(digits string, dim string) string {
	if len(digits) < 2 || !p.rarely(dim, 5) {
		return digits
	}
	var sb strings.Builder
	for i := 0; i < len(digits); i++ {
		if i > 0 && p.C.Intn(3) == 0 {
			sb.WriteByte('_')
		}
		sb.WriteByte(digits[i])
	}
	return sb.String()
}

func (p *Printer) intLit(v *big.Int) {
	abs := new(big.Int).Abs(v)
	sign := ""
	if v.Sign() < 0 {
		sign = "-"
	}
	switch p.choose("int.radix", 6) {
	case 4:
		ds := abs.Text(16)
		if p.C.Intn(2) == 0 {
			ds = strings.ToUpper(ds)
		}
		if p.C.Intn(3) == 0 {
			ds = "0" + ds // leading zero digits are legal after the radix prefix
		}
		p.w(sign + []string{"0x", "0X"}[p.C.Intn(2)] + p.underscores(ds, "int.underscore"))
	case 5:
		if abs.BitLen() > 200 {
			p.w(sign + p.underscores(abs.String(), "int.underscore"))
			return
		}
		ds := abs.Text(2)
		if p.C.Intn(3) == 0 {
			ds = "00" + ds
		}
		p.w(sign + []string{"0b", "0B"}[p.C.Intn(2)] + p.underscores(ds, "int.underscore"))
	default:
		p.w(sign + p.underscores(abs.String(), "int.underscore"))
	}
}

func (p *Printer) floatLit(f float64) {
	switch {
	case math.IsNaN(f):
		p.w("nan")
		return
	case math.IsInf(f, 1):
		p.w("+inf")
		return
	case math.IsInf(f, -1):
		p.w("-inf")
		return
	}
	// shortest repr that round-trips, then vary the spelling
	s := strconv.FormatFloat(f, 'e', -1, 64) // d.ddde±xx
	neg := strings.HasPrefix(s, "-")
	s = strings.TrimPrefix(s, "-")
	ei := strings.IndexByte(s, 'e')
	mant, exps := s[:ei], s[ei+1:]
	exp, _ := strconv.Atoi(exps)
	intPart, frac := mant, ""
	if i := strings.IndexByte(mant, '.'); i >= 0 {
		intPart, frac = mant[:i], mant[i+1:]
	}
	e := []string{"e", "E"}[p.choose("float.E", 2)]
	var out string
	switch p.choose("float.form", 5) {
	case 1:
		// shift the point right: all digits integer, exponent adjusted
		digits := intPart + frac
		out = digits + e + strconv.Itoa(exp-len(frac))
		if digits[0] == '0' && len(digits) > 1 {
			out = intPart + "." + frac + e + strconv.Itoa(exp)
		}
	case 2:
		// explicit + sign on exponent, or padded exponent
		if exp >= 0 {
			out = intPart + "." + frac + e + "+" + strconv.Itoa(exp)
		} else {
			out = intPart + "." + frac + e + "-0" + strconv.Itoa(-exp)
		}
	case 3:
		// empty fraction form 1.e3 when possible
		if frac == "" {
			out = intPart + "." + e + strconv.Itoa(exp)
		} else {
			out = intPart + "." + frac + "0" + e + strconv.Itoa(exp)
		}
	case 4:
		// underscores in the mantissa
		ip := intPart
		fr := frac
		if len(fr) > 1 {
			fr = fr[:1] + "_" + fr[1:]
		}
		if fr == "" {
			out = ip + e + strconv.Itoa(exp)
		} else {
			out = ip + "." + fr + e + strconv.Itoa(exp)
		}
	default:
		if frac == "" {
			out = intPart + e + strconv.Itoa(exp)
		} else {
			out = intPart + "." + frac + e + strconv.Itoa(exp)
		}
	}
	if neg {
		out = "-" + out
	}
	p.w(out)
}

func (p *Printer) decLit(d model.Dec) {
	sign := ""
	coef := new(big.Int).Abs(d.Coef).String()
	if d.Coef.Sign() < 0 || d.NegZero {
		sign = "-"
	}
	D := []string{"d", "D"}[p.choose("decimal.D", 2)]
	form := p.choose("decimal.form", 5)
	exp := d.Exp
	// plain fraction form possible when -len(coef) < exp <= 0 ... or exp<0 small
	switch {
	case form == 1 && exp < 0 && exp >= -40:
		// d.ddd with the point inside or leading zeros: 0.00ddd
		n := int(-exp)
		var ip, fr string
		if n < len(coef) {
			ip, fr = coef[:len(coef)-n], coef[len(coef)-n:]
		} else {
			ip, fr = "0", strings.Repeat("0", n-len(coef))+coef
		}
		p.w(sign + p.underscores(ip, "decimal.underscore") + "." + p.underscores(fr, "decimal.underscore"))
	case form == 2 && exp == 0:
		p.w(sign + coef + ".")
	case form == 3 && len(coef) > 1 && exp < math.MaxInt32-64:
		// d.ddDn : move the point inside and compensate in the exponent
		k := 1 + p.C.Intn(len(coef)-1)
		p.w(sign + coef[:len(coef)-k] + "." + coef[len(coef)-k:] + D + fmtExp(exp+int64(k), p))
	case form == 4:
		p.w(sign + coef + "." + D + fmtExp(exp, p))
	default:
		p.w(sign + coef + D + fmtExp(exp, p))
	}
}

func fmtExp(e int64, p *Printer) string {
	if e >= 0 && p.rarely("exponent.plus-sign", 4) {
		return "+" + strconv.FormatInt(e, 10)
	}
	if p.rarely("exponent.leading-zero", 8) {
		if e < 0 {
			return "-0" + strconv.FormatInt(-e, 10)
		}
		return "0" + strconv.FormatInt(e, 10)
	}
	return strconv.FormatInt(e, 10)
}

func (p *Printer) tsLit(t model.TS) {
	switch t.Prec {
	case model.PYear:
		p.w(fmt.Sprintf("%04dT", t.Year))
		return
	case model.PMonth:
		p.w(fmt.Sprintf("%04d-%02dT", t.Year, t.Month))
		return
	case model.PDay:
		if p.choose("ts.day-without-T", 2) == 1 {
			p.w(fmt.Sprintf("%04d-%02d-%02d", t.Year, t.Month, t.Day))
		} else {
			p.w(fmt.Sprintf("%04d-%02d-%02dT", t.Year, t.Month, t.Day))
		}
		return
	}
	s := fmt.Sprintf("%04d-%02d-%02dT%02d:%02d", t.Year, t.Month, t.Day, t.Hour, t.Min)
	if t.Prec == model.PSecond {
		s += fmt.Sprintf(":%02d", t.Sec)
		if t.FracDigits > 0 {
			s += "." + fmt.Sprintf("%09d", t.Nanos)[:t.FracDigits]
		}
	}
	switch {
	case !t.OffsetKnown:
		s += "-00:00"
	case t.Offset == 0:
		s += []string{"Z", "+00:00"}[p.choose("ts.utc-as-plus-zero", 2)]
	default:
		o := t.Offset
		sg := "+"
		if o < 0 {
			sg, o = "-", -o
		}
		s += fmt.Sprintf("%s%02d:%02d", sg, o/60, o%60)
	}
	p.w(s)
}

func isIdentifier(s string) bool {
	if s == "" || !isIdentStart(int(s[0])) {
		return false
	}
	for i := 1; i < len(s); i++ {
		if !isIdentPart(int(s[i])) {
			return false
		}
	}
	switch s {
	case "null", "true", "false", "nan":
		return false
	}
	if len(s) > 1 && s[0] == '$' && allDigits(s[1:]) {
		return false
	}
	return true
}

func isOperatorText(s string) bool {
	if s == "" {
		return false
	}
	for i := 0; i < len(s); i++ {
		if !isOperator(int(s[i])) {
			return false
		}
	}
	// avoid comment starters
	return !strings.Contains(s, "//") && !strings.Contains(s, "/*")
}

// symbol prints a symbol token. inSexp allows bare operator spelling.
func (p *Printer) symbol(s model.Sym, inSexp bool, isAnnotation bool) {
	if !s.Known {
		p.w("$" + strconv.Itoa(p.unknownID()))
		return
	}
	// $n spelling when the current table defines the text
	oneIn := 5
	if p.SIDOneIn > 0 {
		oneIn = p.SIDOneIn
	}
	if ids := p.tab.FindAll(s.Text); len(ids) > 0 && (oneIn == 1 || p.rarely("symbol.sid-spelling", oneIn)) {
		// a top-level bare $2 ... is still a symbol ID reference, fine
		id := strconv.Itoa(ids[p.C.Intn(len(ids))])
		if p.rarely("symbol.sid-leading-zeros", 6) {
			id = []string{"0", "00", "000"}[p.C.Intn(3)] + id // $010 is symbol ID 10
		}
		p.w("$" + id)
		return
	}
	if isIdentifier(s.Text) && !(isIVMShaped(s.Text) && !isAnnotation && !p.bareIVM) {
		if p.choose("symbol.quoted-identifier", 4) != 3 {
			p.w(s.Text)
			return
		}
	}
	if inSexp && !isAnnotation && isOperatorText(s.Text) && s.Text != "+" && s.Text != "-" && !strings.HasSuffix(s.Text, "+") && !strings.HasSuffix(s.Text, "-") {
		if p.choose("symbol.bare-operator", 2) == 1 {
			// bare operator: what follows inside an s-expression is whitespace of
			// any kind, an opening bracket, a double quote or the closing paren
			// (the s-expression printer sees to that), so nothing can merge with it
			p.w(s.Text)
			if p.C.Intn(3) == 0 {
				p.w(" ")
			}
			return
		}
	}
	p.w("'")
	p.escaped(s.Text, '\'', false, false)
	p.w("'")
}

// unknownID picks the ID used to spell a symbol with unknown text.
func (p *Printer) unknownID() int {
	if !p.UndefinedSlots {
		return 0
	}
	ids := []int{0}
	for i := 1; i < len(p.tab.Slots)-p.tab.NLocal; i++ { // import placeholders only
		if !p.tab.Slots[i].Known {
			ids = append(ids, i)
		}
	}
	return ids[p.C.Intn(len(ids))]
}

func (p *Printer) fieldName(s model.Sym) {
	if !s.Known {
		p.w("$" + strconv.Itoa(p.unknownID()))
		return
	}
	switch p.choose("fieldname.as-string", 6) {
	case 4:
		p.w("\"")
		p.escaped(s.Text, '"', false, false)
		p.w("\"")
		return
	case 5:
		p.longStr(s.Text, false)
		return
	}
	if isIVMShaped(s.Text) {
		p.w("'" + s.Text + "'")
		return
	}
	p.symbol(s, false, true)
}

// escaped writes text inside quotes q. long: inside a ”' segment. clob: bytes
// are raw 7-bit only, no \u.
func (p *Printer) escaped(s string, q byte, long bool, clob bool) {
	b := []byte(s)
	for i := 0; i < len(b); {
		var r rune
		n := 1
		if clob {
			r = rune(b[i])
		} else {
			r, n = utf8.DecodeRune(b[i:])
		}
		i += n
		must := false
		switch {
		case r == '\\':
			must = true
		case r == rune(q) && !long:
			must = true
		case r == '\'' && long:
			// a quote inside a long string is fine unless it forms ''' or
			// touches the closing delimiter: escape conservatively when the
			// next char is also a quote or at the end
			if i >= len(b) || b[i] == '\'' || (i >= 2 && b[i-2] == '\'') {
				must = true
			}
		case r == '\n':
			must = !long
		case r == '\r':
			must = true
		case r < 0x20 && r != '\t' && r != 0x0B && r != 0x0C:
			must = true
		case clob && r >= 0x7F:
			must = r >= 0x80
		}
		if r == '\n' && long {
			switch p.choose("string.raw-newline", 4) {
			case 1:
				p.w("\r\n")
				continue
			case 2:
				if i < len(b) && b[i] == '\n' {
					p.w("\n") // a lone CR before a raw LF would read as one CRLF
				} else {
					p.w("\r")
				}
				continue
			case 3:
				p.w("\\n")
				continue
			}
			p.w("\n")
			continue
		}
		if !must && !p.rarely("string.optional-escape", 12) {
			if clob {
				p.b = append(p.b, byte(r))
			} else {
				p.b = utf8.AppendRune(p.b, r)
			}
			continue
		}
		p.escapeRune(r, clob)
	}
}

var namedEscapes = map[rune]string{0: "\\0", 7: "\\a", 8: "\\b", 9: "\\t", 10: "\\n", 12: "\\f", 13: "\\r", 11: "\\v", '"': "\\\"", '\'': "\\'", '?': "\\?", '\\': "\\\\", '/': "\\/"}

func (p *Printer) escapeRune(r rune, clob bool) {
	var opts []string
	if e, ok := namedEscapes[r]; ok {
		opts = append(opts, e)
	}
	hexf := "%02x"
	if p.C.Intn(2) == 1 {
		hexf = "%02X"
	}
	if r <= 0xFF {
		opts = append(opts, "\\x"+fmt.Sprintf(hexf, r))
	}
	if !clob {
		if r <= 0xFFFF {
			opts = append(opts, "\\u"+fmt.Sprintf(strings.Replace(hexf, "2", "4", 1), r))
		}
		opts = append(opts, "\\U"+fmt.Sprintf(strings.Replace(hexf, "2", "8", 1), r))
		if r > 0xFFFF && !p.Off["string.surrogate-pair-escape"] {
			r2 := r - 0x10000
			opts = append(opts, fmt.Sprintf("\\u%04x\\u%04X", 0xD800+(r2>>10), 0xDC00+(r2&0x3FF)))
		}
	}
	k := p.C.Intn(len(opts))
	if strings.HasPrefix(opts[k], "\\u") && len(opts[k]) > 6 {
		p.Choices["string.surrogate-pair-escape"]++
	}
	p.w(opts[k])
}

func (p *Printer) str(s string) {
	if !p.afterLong && p.choose("string.long-form", 4) == 3 {
		p.longStr(s, false)
		p.afterLong = true
		return
	}
	p.w("\"")
	p.escaped(s, '"', false, false)
	p.w("\"")
}

// longStr writes s as 1..4 ”' segments split at rune boundaries.
func (p *Printer) longStr(s string, clob bool) {
	segs := 1 + p.C.Intn(4)
	if segs > 1 {
		p.Choices["string.multi-segment"]++
	}
	rest := s
	for k := 0; k < segs; k++ {
		part := rest
		if k < segs-1 {
			cut := 0
			if len(rest) > 0 {
				cut = p.C.Intn(len(rest) + 1)
				for cut > 0 && cut < len(rest) && !clob && !utf8.RuneStart(rest[cut]) {
					cut--
				}
			}
			part, rest = rest[:cut], rest[cut:]
		}
		if k > 0 {
			if clob {
				p.w([]string{" ", "", "\n", "\t"}[p.C.Intn(4)])
			} else {
				p.space(false)
			}
		}
		p.w("'''")
		if p.rarely("string.line-continuation", 10) {
			k := p.C.Intn(3)
			if k == 2 && strings.HasPrefix(part, "\n") {
				k = 0 // backslash-CR followed by a raw LF would read as backslash-CRLF
			}
			p.w([]string{"\\\n", "\\\r\n", "\\\r"}[k])
		}
		p.escaped(part, '\'', true, clob)
		p.w("'''")
	}
}

func (p *Printer) lobSpace() {
	switch p.choose("lob.whitespace", 5) {
	case 1:
		p.w(" ")
	case 2:
		p.w("\n")
	case 3:
		p.w("\t ")
	case 4:
		p.w("\r\n")
	}
}

func (p *Printer) clob(b []byte) {
	p.w("{{")
	p.lobSpace()
	if p.choose("clob.long-form", 3) == 2 {
		p.longStr(string(b), true)
	} else {
		p.w("\"")
		p.escaped(string(b), '"', false, true)
		p.w("\"")
	}
	p.lobSpace()
	p.w("}}")
}

func (p *Printer) blob(b []byte) {
	enc := base64.StdEncoding.EncodeToString(b)
	p.w("{{")
	p.lobSpace()
	if len(enc) > 0 && p.rarely("blob.inner-whitespace", 3) {
		for i := 0; i < len(enc); i++ {
			if i > 0 && p.C.Intn(4) == 0 {
				p.w([]string{" ", "\n", "\t", "\r\n", "  "}[p.C.Intn(5)])
			}
			p.b = append(p.b, enc[i])
		}
	} else {
		p.w(enc)
	}
	p.lobSpace()
	p.w("}}")
}
