// Package reftext is the harness's reference implementation of Ion 1.0 text: a
// strict parser and a printer with free spelling choices. It is written from the
// Ion text grammar and imports only the standard library, the harness model and
// the harness symbol-table model.
package reftext

import (
	"encoding/base64"
	"fmt"
	"math"
	"math/big"
	"regexp"
	"strconv"
	"strings"
	"unicode/utf8"

	"verif/h/model"
	"verif/h/refbin"
)

// ErrKind classifies parse errors (same meaning as in refbin).
type ErrKind int

const (
	Invalid ErrKind = iota
	Truncated
	Unsupported
)

// Error is a parse error.
type Error struct {
	Kind ErrKind
	Pos  int
	Msg  string
	// InLST: the error was found inside a top-level value annotated
	// $ion_symbol_table (content a reader consumes itself).
	InLST bool
}

func (e *Error) Error() string {
	k := [...]string{"invalid", "truncated", "unsupported"}[e.Kind]
	return fmt.Sprintf("reftext: %s at %d: %s", k, e.Pos, e.Msg)
}

// Result is what the parser recovered.
type Result struct {
	Values []model.Value
	Tables []*refbin.SymTab
	Decls  []refbin.TableDecl
	IVMs   int
	// ValueMaxIDs[i] is the max_id of the table in force at user value i.
	ValueMaxIDs []int
}

// Options configure parsing.
type Options struct {
	Catalog refbin.Catalog
}

type parser struct {
	b        []byte
	topStart int
	pos      int
	opt Options
	tab *refbin.SymTab
	res *Result
}

type perr struct{ e *Error }

func (p *parser) fail(k ErrKind, pos int, f string, a ...interface{}) {
	panic(perr{&Error{Kind: k, Pos: pos, Msg: fmt.Sprintf(f, a...), InLST: lstPrefix.Match(p.b[p.topStart:])}})
}

// Parse strictly parses an Ion 1.0 text stream.
func Parse(data []byte, opt Options) (res *Result, err error) {
	p := &parser{b: data, opt: opt, tab: refbin.NewSystemTab(), res: &Result{}}
	p.res.Tables = append(p.res.Tables, p.tab)
	defer func() {
		if r := recover(); r != nil {
			if pe, ok := r.(perr); ok {
				res, err = p.res, pe.e
				return
			}
			panic(r)
		}
	}()
	if !utf8.Valid(data) {
		// locate
		i := 0
		for i < len(data) {
			r, n := utf8.DecodeRune(data[i:])
			if r == utf8.RuneError && n == 1 {
				break
			}
			i += n
		}
		p.fail(Invalid, i, "input is not valid UTF-8")
	}
	for {
		p.ws()
		if p.eof() {
			return p.res, nil
		}
		start := p.pos
		p.topStart = start
		v, bareIdent := p.value(ctxTop, 0)
		if v.Kind == model.Symbol && !v.IsNull && len(v.Ann) == 0 && bareIdent && v.Sym.Known && isIVMShaped(v.Sym.Text) {
			if v.Sym.Text != "$ion_1_0" {
				p.fail(Unsupported, start, "version marker %s", v.Sym.Text)
			}
			p.tab = refbin.NewSystemTab()
			p.res.Tables = append(p.res.Tables, p.tab)
			p.res.IVMs++
			continue
		}
		if v.Kind == model.Struct && len(v.Ann) > 0 && v.Ann[0].Known && v.Ann[0].Text == "$ion_symbol_table" {
			nt, decl, err := refbin.LSTFromValue(v, p.tab, p.opt.Catalog)
			if err != nil {
				p.fail(Invalid, start, "%v", err)
			}
			decl.Pos = start
			p.tab = nt
			p.res.Tables = append(p.res.Tables, nt)
			p.res.Decls = append(p.res.Decls, decl)
			continue
		}
		p.res.Values = append(p.res.Values, v)
		p.res.ValueMaxIDs = append(p.res.ValueMaxIDs, p.tab.MaxID())
	}
}

// lstPrefix recognises the start of a top-level symbol-table value.
var lstPrefix = regexp.MustCompile(`^(\$ion_symbol_table|'\$ion_symbol_table'|\$3)[ \t\r\n]*::`)

func isIVMShaped(s string) bool {
	if !strings.HasPrefix(s, "$ion_") {
		return false
	}
	parts := strings.Split(s[5:], "_")
	if len(parts) != 2 {
		return false
	}
	for _, q := range parts {
		if q == "" {
			return false
		}
		for _, c := range q {
			if c < '0' || c > '9' {
				return false
			}
		}
	}
	return true
}

type ctx int

const (
	ctxTop ctx = iota
	ctxList
	ctxSexp
	ctxStruct
)

func (p *parser) eof() bool { return p.pos >= len(p.b) }

func (p *parser) peek() int {
	if p.pos >= len(p.b) {
		return -1
	}
	return int(p.b[p.pos])
}

func (p *parser) peekAt(i int) int {
	if p.pos+i >= len(p.b) {
		return -1
	}
	return int(p.b[p.pos+i])
}

func isWS(c int) bool {
	return c == ' ' || c == '\t' || c == '\n' || c == '\r' || c == 0x0B || c == 0x0C
}

// ws skips whitespace and comments.
func (p *parser) ws() {
	for {
		c := p.peek()
		switch {
		case isWS(c):
			p.pos++
		case c == '/' && p.peekAt(1) == '/':
			p.pos += 2
			for !p.eof() && p.b[p.pos] != '\n' && p.b[p.pos] != '\r' {
				p.pos++
			}
		case c == '/' && p.peekAt(1) == '*':
			start := p.pos
			p.pos += 2
			for {
				if p.eof() {
					p.fail(Truncated, start, "unterminated block comment")
				}
				if p.b[p.pos] == '*' && p.peekAt(1) == '/' {
					p.pos += 2
					break
				}
				p.pos++
			}
		default:
			return
		}
	}
}

// lobWS skips whitespace only (no comments inside lobs).
func (p *parser) lobWS() {
	for isWS(p.peek()) {
		p.pos++
	}
}

func isIdentStart(c int) bool {
	return c == '_' || c == '$' || (c >= 'a' && c <= 'z') || (c >= 'A' && c <= 'Z')
}
func isDigit(c int) bool     { return c >= '0' && c <= '9' }
func isIdentPart(c int) bool { return isIdentStart(c) || isDigit(c) }
func isHex(c int) bool {
	return isDigit(c) || (c >= 'a' && c <= 'f') || (c >= 'A' && c <= 'F')
}
func isOperator(c int) bool {
	return c > 0 && strings.IndexByte("!#%&*+-./;<=>?@^`|~", byte(c)) >= 0
}

// isStop: characters that may directly follow a number, keyword or timestamp.
func isStop(c int) bool {
	return c == -1 || isWS(c) || (c > 0 && strings.IndexByte("{}[](),\"'", byte(c)) >= 0)
}

const maxDepth = 2000

// symTok is a parsed symbol token.
type symTok struct {
	sym       model.Sym
	bareIdent bool // unquoted identifier (not $n)
	keyword   bool // unquoted null/true/false/nan
	isSID     bool
}

// trySymbol parses an identifier, $n or quoted symbol at pos; ok=false if the
// next token is not one of those.
func (p *parser) trySymbol() (symTok, bool) {
	c := p.peek()
	if c == '\'' {
		if p.peekAt(1) == '\'' && p.peekAt(2) == '\'' {
			return symTok{}, false // long string
		}
		start := p.pos
		p.pos++
		s := p.quoted('\'', false, false, start)
		return symTok{sym: model.S(s)}, true
	}
	if !isIdentStart(c) {
		return symTok{}, false
	}
	start := p.pos
	for isIdentPart(p.peek()) {
		p.pos++
	}
	id := string(p.b[start:p.pos])
	switch id {
	case "null", "true", "false", "nan":
		return symTok{sym: model.S(id), keyword: true}, true
	}
	if len(id) > 1 && id[0] == '$' && allDigits(id[1:]) {
		if len(id) > 19 {
			p.fail(Invalid, start, "symbol ID %s out of range", id)
		}
		sid, _ := strconv.ParseUint(id[1:], 10, 64)
		slot, ok := p.tab.Lookup(sid)
		if !ok {
			p.fail(Invalid, start, "symbol ID %s above max_id %d", id, p.tab.MaxID())
		}
		return symTok{sym: model.Sym{Text: slot.Text, Known: slot.Known}, isSID: true}, true
	}
	return symTok{sym: model.S(id), bareIdent: true}, true
}

func allDigits(s string) bool {
	if s == "" {
		return false
	}
	for i := 0; i < len(s); i++ {
		if s[i] < '0' || s[i] > '9' {
			return false
		}
	}
	return true
}

// value parses annotations and one value. bareIdent reports that the value is
// an unannotated, unquoted identifier symbol (for version-marker detection).
func (p *parser) value(c ctx, depth int) (model.Value, bool) {
	if depth > maxDepth {
		p.fail(Unsupported, p.pos, "nesting deeper than %d", maxDepth)
	}
	var anns []model.Sym
	for {
		save := p.pos
		tok, ok := p.trySymbol()
		if !ok {
			break
		}
		after := p.pos
		p.ws()
		if p.peek() == ':' && p.peekAt(1) == ':' {
			if tok.keyword {
				p.fail(Invalid, save, "keyword used as an annotation")
			}
			p.pos += 2
			anns = append(anns, tok.sym)
			p.ws()
			continue
		}
		// not an annotation: the symbol (or keyword) is the value
		p.pos = after
		v := p.symbolOrKeyword(tok, save, c)
		v.Ann = anns
		return v, tok.bareIdent && len(anns) == 0
	}
	if len(anns) > 0 {
		ch := p.peek()
		if ch == -1 || ch == ']' || ch == ')' || ch == '}' || ch == ',' {
			p.fail(Invalid, p.pos, "annotation without a value")
		}
	}
	v := p.bareValue(c, depth)
	v.Ann = anns
	return v, false
}

var typeNames = map[string]model.Kind{"null": model.Null, "bool": model.Bool, "int": model.Int, "float": model.Float, "decimal": model.Decimal,
	"timestamp": model.Timestamp, "symbol": model.Symbol, "string": model.String, "clob": model.Clob, "blob": model.Blob,
	"list": model.List, "sexp": model.Sexp, "struct": model.Struct}

func (p *parser) symbolOrKeyword(tok symTok, start int, c ctx) model.Value {
	if !tok.keyword {
		// identifier / $n / quoted symbol. A bare identifier or $n must be
		// followed by a stop character, an operator (in sexp), ':' or a comment.
		return model.SymV(tok.sym)
	}
	comment := p.peek() == '/' && (p.peekAt(1) == '/' || p.peekAt(1) == '*')
	if isOperator(p.peek()) && p.peek() != '.' && !comment {
		// true+ / nan+inf / null-1: whether a keyword needs a stop character is undecided
		// (a comment ends a keyword as it ends an identifier: null/**/.int is three values)
		p.fail(Unsupported, p.pos, "operator character directly after a keyword")
	}
	switch tok.sym.Text {
	case "true", "false", "nan":
		p.needStopKeyword(start, c)
		if tok.sym.Text == "nan" {
			return model.FloatV(math.NaN())
		}
		return model.BoolV(tok.sym.Text == "true")
	}
	// null or null.<type>
	if p.peek() == '.' {
		save := p.pos
		p.pos++
		s := p.pos
		for isIdentPart(p.peek()) {
			p.pos++
		}
		name := string(p.b[s:p.pos])
		if k, ok := typeNames[name]; ok {
			p.needStopKeyword(start, c)
			return model.NullOf(k)
		}
		if c == ctxSexp && name == "" {
			// (null .foo) style operator adjacency: undecided
			p.fail(Unsupported, save, "null followed by '.' in an s-expression")
		}
		p.fail(Invalid, save, "null.%s is not a type", name)
	}
	p.needStopKeyword(start, c)
	return model.NullOf(model.Null)
}

// needStopKeyword is needStop for null / null.type / true / false / nan, where
// it is undecided whether an operator character may follow directly.
func (p *parser) needStopKeyword(start int, c ctx) {
	if ch := p.peek(); ch == '/' && (p.peekAt(1) == '/' || p.peekAt(1) == '*') {
		return
	} else if isOperator(ch) {
		p.fail(Unsupported, p.pos, "operator character directly after a keyword")
	}
	p.needStop(start, c)
}

// needStop checks that a number/keyword/timestamp is properly terminated.
func (p *parser) needStop(start int, c ctx) {
	ch := p.peek()
	if isStop(ch) {
		return
	}
	if ch == '/' && (p.peekAt(1) == '/' || p.peekAt(1) == '*') {
		p.fail(Unsupported, p.pos, "comment directly after a scalar token")
	}
	if c == ctxSexp && isOperator(ch) {
		p.fail(Unsupported, p.pos, "operator directly after a scalar token")
	}
	if c == ctxStruct && ch == ':' {
		p.fail(Invalid, p.pos, "keyword used as a field name")
	}
	p.fail(Invalid, p.pos, "token starting at %d is not followed by a stop character", start)
}

func (p *parser) bareValue(c ctx, depth int) model.Value {
	ch := p.peek()
	start := p.pos
	switch {
	case ch == -1:
		p.fail(Truncated, p.pos, "expected a value")
	case ch == '{':
		if p.peekAt(1) == '{' {
			return p.lob()
		}
		return p.structValue(depth)
	case ch == '[':
		return p.seq(ctxList, ']', depth)
	case ch == '(':
		return p.seq(ctxSexp, ')', depth)
	case ch == '"':
		p.pos++
		return model.StrV(p.quoted('"', false, false, start))
	case ch == '\'':
		// must be a long string here (trySymbol handled quoted symbols)
		return model.StrV(p.longString(false))
	case isDigit(ch) || (ch == '-' && isDigit(p.peekAt(1))):
		return p.number(c)
	case (ch == '+' || ch == '-') && p.peekAt(1) == 'i' && p.peekAt(2) == 'n' && p.peekAt(3) == 'f' && (c != ctxSexp || isStop(p.peekAt(4))):
		p.pos += 4
		p.needStop(start, c)
		if ch == '+' {
			return model.FloatV(math.Inf(1))
		}
		return model.FloatV(math.Inf(-1))
	case c == ctxSexp && isOperator(ch):
		for isOperator(p.peek()) {
			if p.peek() == '/' && (p.peekAt(1) == '/' || p.peekAt(1) == '*') {
				if p.pos > start {
					// "+/*": comment opener or part of the operator? undecided
					p.fail(Unsupported, p.pos, "comment opener directly after operator characters")
				}
				break
			}
			p.pos++
		}
		if p.pos == start {
			p.fail(Invalid, start, "unexpected character")
		}
		return model.SymV(model.S(string(p.b[start:p.pos])))
	}
	p.fail(Invalid, p.pos, "unexpected character %q", rune(ch))
	panic("unreachable")
}

func (p *parser) seq(c ctx, closer byte, depth int) model.Value {
	start := p.pos
	p.pos++
	v := model.Value{Kind: model.List}
	if c == ctxSexp {
		v.Kind = model.Sexp
	}
	needSep := false
	for {
		p.ws()
		ch := p.peek()
		if ch == -1 {
			p.fail(Truncated, start, "unterminated container")
		}
		if ch == int(closer) {
			p.pos++
			return v
		}
		if ch == ']' || ch == ')' || ch == '}' {
			p.fail(Invalid, p.pos, "mismatched closing bracket")
		}
		if c == ctxList {
			if needSep {
				if ch != ',' {
					p.fail(Invalid, p.pos, "missing comma in list")
				}
				p.pos++
				needSep = false
				// trailing comma allowed
				continue
			}
			if ch == ',' {
				p.fail(Invalid, p.pos, "unexpected comma")
			}
		}
		e, _ := p.value(c, depth+1)
		v.Elems = append(v.Elems, e)
		if c == ctxList {
			p.ws()
			if p.peek() == ':' {
				p.fail(Invalid, p.pos, "':' in a list")
			}
			needSep = true
		}
	}
}

func (p *parser) structValue(depth int) model.Value {
	start := p.pos
	p.pos++
	v := model.Value{Kind: model.Struct}
	needSep := false
	for {
		p.ws()
		ch := p.peek()
		if ch == -1 {
			p.fail(Truncated, start, "unterminated struct")
		}
		if ch == '}' {
			p.pos++
			return v
		}
		if ch == ']' || ch == ')' {
			p.fail(Invalid, p.pos, "mismatched closing bracket")
		}
		if needSep {
			if ch != ',' {
				p.fail(Invalid, p.pos, "missing comma in struct")
			}
			p.pos++
			needSep = false
			continue
		}
		if ch == ',' {
			p.fail(Invalid, p.pos, "unexpected comma")
		}
		// field name
		var name model.Sym
		fstart := p.pos
		switch {
		case ch == '"':
			p.pos++
			name = model.S(p.quoted('"', false, false, fstart))
		case ch == '\'' && p.peekAt(1) == '\'' && p.peekAt(2) == '\'':
			name = model.S(p.longString(false))
		default:
			tok, ok := p.trySymbol()
			if !ok {
				p.fail(Invalid, p.pos, "expected a field name")
			}
			if tok.keyword {
				p.fail(Invalid, fstart, "keyword used as a field name")
			}
			name = tok.sym
		}
		p.ws()
		if p.peek() != ':' {
			if p.peek() == -1 {
				p.fail(Truncated, p.pos, "field name without a value")
			}
			p.fail(Invalid, p.pos, "expected ':' after field name")
		}
		if p.peekAt(1) == ':' {
			p.fail(Invalid, p.pos, "'::' after a field name")
		}
		p.pos++
		p.ws()
		if c := p.peek(); c == '}' || c == ',' || c == -1 {
			if c == -1 {
				p.fail(Truncated, p.pos, "field name without a value")
			}
			p.fail(Invalid, p.pos, "field name without a value")
		}
		e, _ := p.value(ctxStruct, depth+1)
		v.Fields = append(v.Fields, model.Field{Name: name, Val: e})
		needSep = true
	}
}

// quoted parses the body of a short string / quoted symbol / short clob after
// the opening quote; returns the decoded text. clob=true restricts to 7-bit
// characters and forbids \u \U.
func (p *parser) quoted(q byte, clob bool, long bool, start int) string {
	var out []byte
	for {
		if p.eof() {
			p.fail(Truncated, start, "unterminated quoted text")
		}
		c := p.b[p.pos]
		if !long && c == q {
			p.pos++
			return string(out)
		}
		if long && c == '\'' && p.peekAt(1) == '\'' && p.peekAt(2) == '\'' {
			p.pos += 3
			return string(out)
		}
		switch {
		case c == '\\':
			out = p.escape(out, clob)
			continue
		case c == '\n' || c == '\r':
			if !long {
				p.fail(Invalid, p.pos, "raw newline in short quoted text")
			}
			// normalise CR and CRLF to LF
			if c == '\r' && p.peekAt(1) == '\n' {
				p.pos++
			}
			out = append(out, '\n')
			p.pos++
			continue
		case c < 0x20 && c != '\t' && c != 0x0B && c != 0x0C:
			p.fail(Invalid, p.pos, "raw control character %#x in quoted text", c)
		case c >= 0x80 && clob:
			p.fail(Invalid, p.pos, "non-ASCII character in clob")
		}
		out = append(out, c)
		p.pos++
	}
}

func (p *parser) escape(out []byte, clob bool) []byte {
	start := p.pos
	p.pos++
	if p.eof() {
		p.fail(Truncated, start, "unterminated escape")
	}
	c := p.b[p.pos]
	p.pos++
	switch c {
	case '0':
		return append(out, 0)
	case 'a':
		return append(out, 7)
	case 'b':
		return append(out, 8)
	case 't':
		return append(out, 9)
	case 'n':
		return append(out, 10)
	case 'f':
		return append(out, 12)
	case 'r':
		return append(out, 13)
	case 'v':
		return append(out, 11)
	case '"', '\'', '?', '\\', '/':
		return append(out, c)
	case '\n':
		return out
	case '\r':
		if p.peek() == '\n' {
			p.pos++
		}
		return out
	case 'x':
		v := p.hex(2, start)
		if clob {
			return append(out, byte(v))
		}
		return utf8.AppendRune(out, rune(v))
	case 'u', 'U':
		if clob {
			p.fail(Invalid, start, "\\%c escape in a clob", c)
		}
		n := 4
		if c == 'U' {
			n = 8
		}
		v := p.hex(n, start)
		if v > 0x10FFFF {
			p.fail(Invalid, start, "escape beyond U+10FFFF")
		}
		if v >= 0xD800 && v <= 0xDBFF {
			// high surrogate: must pair with a following low surrogate escape
			if p.peek() == '\\' && (p.peekAt(1) == 'u') {
				save := p.pos
				p.pos += 2
				lo := p.hex(4, save)
				if lo >= 0xDC00 && lo <= 0xDFFF {
					return utf8.AppendRune(out, rune(0x10000+(v-0xD800)<<10+(lo-0xDC00)))
				}
			}
			p.fail(Invalid, start, "unpaired surrogate escape")
		}
		if v >= 0xDC00 && v <= 0xDFFF {
			p.fail(Invalid, start, "unpaired surrogate escape")
		}
		return utf8.AppendRune(out, rune(v))
	}
	p.fail(Invalid, start, "unknown escape \\%c", c)
	panic("unreachable")
}

func (p *parser) hex(n int, start int) uint32 {
	var v uint32
	for i := 0; i < n; i++ {
		c := p.peek()
		if c == -1 {
			p.fail(Truncated, start, "unterminated hex escape")
		}
		if !isHex(c) {
			p.fail(Invalid, start, "short hex escape")
		}
		v = v<<4 | uint32(hexVal(byte(c)))
		p.pos++
	}
	return v
}

func hexVal(c byte) int {
	switch {
	case c >= '0' && c <= '9':
		return int(c - '0')
	case c >= 'a' && c <= 'f':
		return int(c-'a') + 10
	}
	return int(c-'A') + 10
}

// longString parses one or more adjacent ”'-segments.
func (p *parser) longString(clob bool) string {
	var sb strings.Builder
	for {
		start := p.pos
		p.pos += 3
		sb.WriteString(p.quoted('\'', clob, true, start))
		save := p.pos
		if clob {
			p.lobWS()
		} else {
			p.ws()
		}
		if p.peek() == '\'' && p.peekAt(1) == '\'' && p.peekAt(2) == '\'' {
			continue
		}
		p.pos = save
		return sb.String()
	}
}

func (p *parser) lob() model.Value {
	start := p.pos
	p.pos += 2
	p.lobWS()
	c := p.peek()
	closeLob := func() {
		p.lobWS()
		if p.peek() == -1 {
			p.fail(Truncated, start, "unterminated lob")
		}
		if p.peek() != '}' || p.peekAt(1) != '}' {
			if p.peek() == '}' && p.peekAt(1) == -1 {
				p.fail(Truncated, start, "unterminated lob")
			}
			p.fail(Invalid, p.pos, "expected }} to close the lob")
		}
		p.pos += 2
	}
	if c == '"' {
		qs := p.pos
		p.pos++
		s := p.quoted('"', true, false, qs)
		closeLob()
		return model.ClobV([]byte(s))
	}
	if c == '\'' {
		if !(p.peekAt(1) == '\'' && p.peekAt(2) == '\'') {
			p.fail(Invalid, p.pos, "bad clob")
		}
		s := p.longString(true)
		closeLob()
		return model.ClobV([]byte(s))
	}
	// blob
	var b64 []byte
	for {
		ch := p.peek()
		if ch == -1 {
			p.fail(Truncated, start, "unterminated blob")
		}
		if ch == '}' {
			break
		}
		if isWS(ch) {
			p.pos++
			continue
		}
		if !(isDigit(ch) || (ch >= 'a' && ch <= 'z') || (ch >= 'A' && ch <= 'Z') || ch == '+' || ch == '/' || ch == '=') {
			p.fail(Invalid, p.pos, "bad base64 character %q", rune(ch))
		}
		b64 = append(b64, byte(ch))
		p.pos++
	}
	closeLob()
	if len(b64)%4 != 0 {
		p.fail(Invalid, start, "base64 length %d is not a multiple of 4", len(b64))
	}
	pad := 0
	for i, ch := range b64 {
		if ch == '=' {
			if i < len(b64)-2 {
				p.fail(Invalid, start, "bad base64 padding")
			}
			pad++
		} else if pad > 0 {
			p.fail(Invalid, start, "bad base64 padding")
		}
	}
	dec, err := base64.StdEncoding.Strict().DecodeString(string(b64))
	if err != nil {
		if _, err2 := base64.StdEncoding.DecodeString(string(b64)); err2 == nil {
			p.fail(Unsupported, start, "base64 with non-zero trailing bits")
		}
		p.fail(Invalid, start, "bad base64: %v", err)
	}
	return model.BlobV(dec)
}

// digitsUS parses digits with optional single underscores between digits.
func (p *parser) digitsUS(isDig func(int) bool) string {
	var out []byte
	start := p.pos
	for {
		c := p.peek()
		if isDig(c) {
			out = append(out, byte(c))
			p.pos++
			continue
		}
		if c == '_' {
			if len(out) == 0 || !isDig(p.peekAt(1)) {
				p.fail(Invalid, p.pos, "misplaced underscore in number")
			}
			p.pos++
			continue
		}
		break
	}
	if len(out) == 0 {
		p.fail(Invalid, start, "expected digits")
	}
	return string(out)
}

func (p *parser) number(c ctx) model.Value {
	start := p.pos
	neg := false
	if p.peek() == '-' {
		neg = true
		p.pos++
	}
	// timestamp? four digits followed by '-' or 'T'
	if !neg && isDigit(p.peekAt(0)) && isDigit(p.peekAt(1)) && isDigit(p.peekAt(2)) && isDigit(p.peekAt(3)) && (p.peekAt(4) == '-' || p.peekAt(4) == 'T') {
		return p.timestamp(c)
	}
	if p.peek() == '0' && (p.peekAt(1) == 'x' || p.peekAt(1) == 'X' || p.peekAt(1) == 'b' || p.peekAt(1) == 'B') {
		radix := 16
		isDig := isHex
		if p.peekAt(1) == 'b' || p.peekAt(1) == 'B' {
			radix = 2
			isDig = func(c int) bool { return c == '0' || c == '1' }
		}
		p.pos += 2
		if p.peek() == '_' {
			p.fail(Invalid, p.pos, "underscore after radix prefix")
		}
		ds := p.digitsUS(isDig)
		p.needStop(start, c)
		v, _ := new(big.Int).SetString(ds, radix)
		if neg {
			v.Neg(v)
		}
		return model.Value{Kind: model.Int, Int: v}
	}
	if p.peek() == '0' && (isDigit(p.peekAt(1)) || p.peekAt(1) == '_') {
		p.fail(Invalid, p.pos, "leading zero in number")
	}
	ip := p.digitsUS(isDigit)
	ch := p.peek()
	if ch != '.' && ch != 'd' && ch != 'D' && ch != 'e' && ch != 'E' {
		p.needStop(start, c)
		v, _ := new(big.Int).SetString(ip, 10)
		if neg {
			v.Neg(v)
		}
		return model.Value{Kind: model.Int, Int: v}
	}
	frac := ""
	if ch == '.' {
		p.pos++
		if p.peek() == '_' {
			p.fail(Invalid, p.pos, "underscore next to decimal point")
		}
		if isDigit(p.peek()) {
			frac = p.digitsUS(isDigit)
		}
		ch = p.peek()
	}
	isFloat := false
	exp := int64(0)
	if ch == 'd' || ch == 'D' || ch == 'e' || ch == 'E' {
		isFloat = ch == 'e' || ch == 'E'
		p.pos++
		es := p.pos
		if p.peek() == '+' || p.peek() == '-' {
			p.pos++
		}
		ds := p.pos
		for isDigit(p.peek()) {
			p.pos++
		}
		if p.pos == ds {
			p.fail(Invalid, p.pos, "exponent without digits")
		}
		if p.peek() == '_' {
			p.fail(Invalid, p.pos, "underscore in exponent")
		}
		etxt := string(p.b[es:p.pos])
		if !isFloat {
			e, err := strconv.ParseInt(etxt, 10, 64)
			if err != nil {
				p.fail(Unsupported, es, "decimal exponent out of range")
			}
			exp = e
		}
		if isFloat {
			p.needStop(start, c)
			txt := ip
			if frac != "" {
				txt += "." + frac
			}
			txt += "e" + etxt
			if neg {
				txt = "-" + txt
			}
			f, err := strconv.ParseFloat(txt, 64)
			if err != nil {
				if ne, ok := err.(*strconv.NumError); !ok || ne.Err != strconv.ErrRange {
					p.fail(Invalid, start, "bad float %q", txt)
				}
			}
			return model.FloatV(f)
		}
	}
	p.needStop(start, c)
	coef, _ := new(big.Int).SetString(ip+frac, 10)
	exp -= int64(len(frac))
	negZero := false
	if neg {
		if coef.Sign() == 0 {
			negZero = true
		} else {
			coef.Neg(coef)
		}
	}
	return model.Value{Kind: model.Decimal, Dec: model.Dec{Coef: coef, Exp: exp, NegZero: negZero}}
}

func (p *parser) fixedDigits(n int, what string) int {
	v := 0
	for i := 0; i < n; i++ {
		c := p.peek()
		if !isDigit(c) {
			p.fail(Invalid, p.pos, "timestamp: expected %d digits of %s", n, what)
		}
		v = v*10 + (c - '0')
		p.pos++
	}
	return v
}

func (p *parser) timestamp(c ctx) model.Value {
	start := p.pos
	var t model.TS
	t.Month, t.Day = 1, 1
	t.Year = p.fixedDigits(4, "year")
	finish := func() model.Value {
		p.needStop(start, c)
		if !t.ValidFields() {
			p.fail(Invalid, start, "timestamp field out of range: %+v", t)
		}
		return model.TSV(t)
	}
	if p.peek() == 'T' {
		p.pos++
		t.Prec = model.PYear
		return finish()
	}
	p.pos++ // '-'
	t.Month = p.fixedDigits(2, "month")
	if p.peek() == 'T' {
		p.pos++
		t.Prec = model.PMonth
		return finish()
	}
	if p.peek() != '-' {
		p.fail(Invalid, p.pos, "timestamp: expected '-' or 'T' after month")
	}
	p.pos++
	t.Day = p.fixedDigits(2, "day")
	t.Prec = model.PDay
	if p.peek() != 'T' {
		return finish()
	}
	p.pos++
	if !isDigit(p.peek()) {
		return finish()
	}
	t.Hour = p.fixedDigits(2, "hour")
	if p.peek() != ':' {
		p.fail(Invalid, p.pos, "timestamp: hour without minute")
	}
	p.pos++
	t.Min = p.fixedDigits(2, "minute")
	t.Prec = model.PMinute
	if p.peek() == ':' {
		p.pos++
		t.Sec = p.fixedDigits(2, "second")
		t.Prec = model.PSecond
		if p.peek() == '.' {
			p.pos++
			fs := p.pos
			for isDigit(p.peek()) {
				p.pos++
			}
			digs := string(p.b[fs:p.pos])
			if digs == "" {
				p.fail(Invalid, p.pos, "timestamp: '.' without fraction digits")
			}
			if len(digs) > 9 {
				p.fail(Unsupported, fs, "sub-nanosecond fraction")
			}
			t.FracDigits = len(digs)
			n, _ := strconv.Atoi(digs + strings.Repeat("0", 9-len(digs)))
			t.Nanos = n
		}
	}
	// offset is mandatory
	switch p.peek() {
	case 'Z':
		p.pos++
		t.OffsetKnown, t.Offset = true, 0
	case '+', '-':
		sign := 1
		if p.peek() == '-' {
			sign = -1
		}
		p.pos++
		oh := p.fixedDigits(2, "offset hour")
		if p.peek() != ':' {
			p.fail(Invalid, p.pos, "timestamp: offset without minutes")
		}
		p.pos++
		om := p.fixedDigits(2, "offset minute")
		if oh > 23 || om > 59 {
			p.fail(Invalid, start, "timestamp: offset out of range")
		}
		if sign < 0 && oh == 0 && om == 0 {
			t.OffsetKnown = false
		} else {
			t.OffsetKnown, t.Offset = true, sign*(oh*60+om)
		}
	case 'z':
		p.fail(Unsupported, p.pos, "lowercase z")
	default:
		if p.peek() == -1 {
			p.fail(Invalid, p.pos, "timestamp: time without offset")
		}
		p.fail(Invalid, p.pos, "timestamp: time without offset")
	}
	return finish()
}
