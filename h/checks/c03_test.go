package checks

import (
	"bytes"
	"fmt"
	"sort"
	"testing"

	"github.com/amzn/ion-go/ion"
	"pgregory.net/rapid"

	"verif/h/drive"
	"verif/h/gen"
	"verif/h/model"
	"verif/h/refbin"
)

// C03 — the binary reader decodes every valid encoding.

type DocCase struct {
	Doc      []byte        `json:"doc"`
	Vals     []model.Value `json:"vals"`
	NonCanon int           `json:"noncanon"`
	Dims     []string      `json:"dims,omitempty"`
}

// harnessBug aborts the run: the reference implementations disagree with each
// other, which is never reported as a violation.
func harnessBug(format string, a ...interface{}) {
	panic(fmt.Sprintf("HARNESS-SELF-CHECK-FAILED: "+format, a...))
}

func dimsOf(m map[string]int) []string {
	var out []string
	for k := range m {
		out = append(out, k)
	}
	sort.Strings(out)
	return out
}

// encodeDoc renders vals with the reference encoder and self-checks it with the
// reference decoder.
func encodeDoc(vals []model.Value, c refbin.Chooser) DocCase {
	e := refbin.NewEnc(c)
	applyEncoderExclusions(e)
	b, err := e.Doc(vals)
	if err != nil {
		harnessBug("reference encoder: %v", err)
	}
	res, derr := refbin.Decode(b, refbin.Options{})
	if derr != nil {
		harnessBug("reference decoder rejects reference encoding: %v\nvals: %s\nbytes: % x", derr, model.SeqString(vals), b)
	}
	if d := model.DiffSeq(vals, res.Values); d != "" {
		harnessBug("reference decode(encode(x)) != x: %s\nvals: %s\nbytes: % x", d, model.SeqString(vals), b)
	}
	return DocCase{Doc: b, Vals: vals, NonCanon: e.NonCanon, Dims: dimsOf(e.Choices)}
}

// applyEncoderExclusions switches off encoder dimensions named by open known findings.
func applyEncoderExclusions(e *refbin.Enc) {
	for _, dim := range []string{"ts.ignorable-fraction", "ts.date-offset-zero", "null.int-as-3F", "struct.sorted-form",
		"nop.in-struct", "nop.in-sequence", "nop.top-level", "ivm.repeated", "lst.undefined-slot", "lst.duplicate-symbol",
		"sym.non-lowest-id", "float.32bit", "float.zero-explicit", "decimal.zero-explicit", "lst.split-or-append",
		"lst.symbols-before-imports", "lst.redeclare-system-symbol", "decimal.coef.explicit-zero", "ts.frac-coef.explicit-zero",
		"ts.frac-coef.leading-zero-bytes", "decimal.coef.leading-zero-bytes", "symbol.leading-zero-bytes", "int.leading-zero-bytes"} {
		if gen.Excluded("refbin."+dim, false) {
			e.Off[dim] = true
		}
	}
}

func runC03(c DocCase) string {
	st := Stat("C03")
	classes := make([]string, 0, len(c.Dims))
	for _, d := range c.Dims {
		classes = append(classes, "enc."+d)
	}
	st.Eval(c.NonCanon > 0, model.DigestBytes("C03", c.Doc), classes...)
	st.Sample(func() string { return fmt.Sprintf("doc=% x  denotes %s", clip(c.Doc, 120), model.SeqString(c.Vals)) })
	got, err := drive.Observe(ion.NewReaderBytes(c.Doc))
	if err != nil {
		return fmt.Sprintf("reader fails on a valid encoding: %v\nbytes: % x\nexpected: %s", err, clip(c.Doc, 300), model.SeqString(c.Vals))
	}
	if d := model.DiffSeq(c.Vals, got); d != "" {
		return fmt.Sprintf("decoded values differ: %s\nbytes: % x\nexpected: %s", d, clip(c.Doc, 300), model.SeqString(c.Vals))
	}
	return ""
}

func clip(b []byte, n int) []byte {
	if len(b) > n {
		return b[:n]
	}
	return b
}

func genC03(t *rapid.T) DocCase {
	cfg := &gen.Cfg{MaxDepth: gen.Pick(t, []int{1, 2, 3, 4}), AllowUnknown: true, Size: &gen.Size{Big: gen.Chance(t, 8)}}
	vals := gen.Seq(t, cfg, 5)
	if gen.Chance(t, 2) {
		vals = append(vals, gen.Deep(t, gen.Range(t, 10, 64)))
	}
	return encodeDoc(vals, gen.RapidChooser{T: t})
}

func TestC03(t *testing.T) {
	p := Prop[DocCase]{ID: "C03", Sub: "decode", Gen: genC03, Run: runC03, Quick: 20000, Thorough: 400000}
	// enumerated: every boundary scalar, bare and annotated, under a few fixed
	// choice streams (all-canonical and "always last option")
	Enumerate(t, p, "boundary-pool", func(yield func(DocCase) bool) {
		for _, v := range boundaryScalars() {
			for _, vals := range [][]model.Value{{v}, {v.WithAnn(model.S("a"), model.S("name"))}, {model.StructV(model.Field{Name: model.S("f"), Val: v}, model.Field{Name: model.S("g"), Val: v})}} {
				for _, ch := range []refbin.Chooser{nil, &cycleChooser{k: 1}, &cycleChooser{k: 2}, &maxChooser{}} {
					if !yield(encodeDoc(vals, ch)) {
						return
					}
				}
			}
		}
	})
	// scalars above 64 KiB nested in containers, followed by siblings and by
	// further top-level values (the reader takes them in through another path)
	Enumerate(t, p, "big-nested-scalars", func(yield func(DocCase) bool) {
		big := bytes.Repeat([]byte("0123456789abcdef"), 4400) // 70 400 bytes
		docs := [][]model.Value{
			{model.ListV(model.BlobV(big), model.Int64V(1)), model.Int64V(2), model.SymV(model.S("name"))},
			{model.StructV(model.Field{Name: model.S("name"), Val: model.StrV(string(big[:66000]))}, model.Field{Name: model.S("version"), Val: model.ListV(model.ClobV(big[:65537]), model.Int64V(3))}), model.Int64V(4)},
			{model.SexpV(model.SexpV(model.StrV(string(big))), model.Int64V(5)).WithAnn(model.S("name")), model.Int64V(6)},
		}
		for _, vals := range docs {
			for _, ch := range []refbin.Chooser{nil, &cycleChooser{k: 1}, &maxChooser{}} {
				if !yield(encodeDoc(vals, ch)) {
					return
				}
			}
		}
	})
	RunProp(t, p)
}

// cycleChooser returns (i*k+1) mod n: a deterministic non-canonical stream.
type cycleChooser struct{ i, k int }

func (c *cycleChooser) Intn(n int) int {
	c.i++
	return (c.i*c.k + 1) % n
}

// maxChooser always takes the last option.
type maxChooser struct{}

func (maxChooser) Intn(n int) int { return n - 1 }

func init() {
	Describe("C03",
		"cases: a value sequence (generator of C01) rendered by the harness's own spec-derived binary encoder whose every representation decision is a rapid draw: inline vs VarUInt length, over-padded VarUInts (lengths, field IDs, annotation IDs, annot_length, timestamp fields), leading zero bytes in ints / decimal coefficients / symbol IDs, 32- vs 64-bit floats, explicit zero forms, NOP pads at top level / in sequences / in structs, sorted-field structs, repeated version markers with re-declared or appended symbol tables, symbol tables split in two, duplicate and undefined symbol slots, non-lowest symbol IDs, annotation wrappers around everything. Every document is first decoded by the harness's strict reference decoder and must give back the model (self-check). Non-trivial: at least one non-canonical representation choice was taken. Distinct by digest(bytes).",
		"oracle: reference model equality (harness encoder/decoder written from the Ion 1.0 binary specification)",
		"VarUInt over-padding stays within ion-go's documented 10-byte limit",
		"decimal exponents within int32; local years 1..9999; valid UTF-8",
	)
}
