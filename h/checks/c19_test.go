package checks

import (
	"bytes"
	"errors"
	"fmt"
	"io"
	"math"
	"math/big"
	"os"
	"strings"
	"testing"

	"github.com/amzn/ion-go/ion"
	"pgregory.net/rapid"

	"verif/h/drive"
	"verif/h/gen"
	"verif/h/model"
	"verif/h/refbin"
)

// C19 — results do not depend on I/O chunking, and I/O failures are reported.

var errInjected = errors.New("injected I/O failure")

// ---------------------------------------------------------------- read side

// C19Read is one (document, delivery plan) pair. FailAt < 0: no fault.
type C19Read struct {
	Doc []byte `json:"doc"`
	// Chunks are the sizes of successive Read results, cycled; empty = whole.
	Chunks []int `json:"chunks,omitempty"`
	// EOFWithData: the final data is returned together with io.EOF.
	EOFWithData bool `json:"eof_with_data,omitempty"`
	// ZeroEvery > 0: every ZeroEvery-th Read returns (0, nil).
	ZeroEvery int `json:"zero_every,omitempty"`
	// FailAt >= 0: after FailAt bytes were delivered every Read fails.
	FailAt int `json:"fail_at"`
	// FailWithData: the failure is returned together with the last data.
	FailWithData bool `json:"fail_with_data,omitempty"`
	// Shallow: the traversal does not enter containers (Next skips them).
	Shallow bool `json:"shallow,omitempty"`
	// TransientRead: the io.Reader fails exactly once at FailAt and then goes on
	// delivering the rest of the document.
	TransientRead bool `json:"transient_read,omitempty"`
	// ErrKind selects the error value the io.Reader fails with (c19ReadErrs):
	// whatever it is, it is a failure, not an end of data.
	ErrKind int `json:"err_kind,omitempty"`
}

var c19ReadErrs = []error{errInjected, io.ErrUnexpectedEOF, io.ErrClosedPipe, os.ErrDeadlineExceeded, io.ErrNoProgress, fmt.Errorf("read: %w", io.ErrUnexpectedEOF)}

func (c C19Read) failure() error { return c19ReadErrs[c.ErrKind%len(c19ReadErrs)] }

type planReader struct {
	c     C19Read
	pos   int
	calls int
	fired bool
}

func (p *planReader) Read(b []byte) (int, error) {
	p.calls++
	if len(b) == 0 {
		return 0, nil
	}
	limit := len(p.c.Doc)
	faulty := p.c.FailAt >= 0 && !(p.c.TransientRead && p.fired)
	if faulty && p.c.FailAt < limit {
		limit = p.c.FailAt
	}
	if faulty && p.pos >= p.c.FailAt {
		p.fired = true
		return 0, p.c.failure()
	}
	if p.pos >= len(p.c.Doc) {
		return 0, io.EOF
	}
	if p.c.ZeroEvery > 0 && p.calls%p.c.ZeroEvery == 0 {
		return 0, nil
	}
	n := len(b)
	if len(p.c.Chunks) > 0 {
		k := p.c.Chunks[(p.calls-1)%len(p.c.Chunks)]
		if k < 1 {
			k = 1
		}
		if k < n {
			n = k
		}
	}
	if p.pos+n > limit {
		n = limit - p.pos
	}
	copy(b, p.c.Doc[p.pos:p.pos+n])
	p.pos += n
	if faulty && p.pos >= p.c.FailAt && p.c.FailWithData {
		p.fired = true
		return n, p.c.failure()
	}
	if p.pos >= len(p.c.Doc) && p.c.EOFWithData && p.c.FailAt < 0 {
		return n, io.EOF
	}
	return n, nil
}

type observed struct {
	vals  []model.Value
	err   string
	panic bool
}

func observeReader(r func() ion.Reader, shallow ...bool) observed {
	var o observed
	var vals []model.Value
	var err error
	if len(shallow) > 0 && shallow[0] {
		vals, err = drive.ObserveShallow(r)
	} else {
		vals, err = drive.Observe2(r)
	}
	o.vals = vals
	if err != nil {
		o.err = err.Error()
		if _, ok := err.(*drive.PanicError); ok {
			o.panic = true
			o.err = firstLine(o.err, 200)
		}
	}
	return o
}

// lookaheadTokens are substrings whose recognition needs more than one byte of
// lookahead in the text tokenizer.
var lookaheadTokens = []string{"'''", "::", "{{", "}}", "+inf", "-inf", "\r\n", "//", "/*", "*/", "nan", "null.", "\\\r\n", "\\\n", "0x", "0b", "T", "$ion_"}

func insideLookahead(doc []byte, at int) bool {
	if at >= 1 && at <= 3 && len(doc) >= 4 {
		return true // the four-byte format sniff
	}
	lo := at - 8
	if lo < 0 {
		lo = 0
	}
	hi := at + 8
	if hi > len(doc) {
		hi = len(doc)
	}
	win := string(doc[lo:hi])
	for _, tok := range lookaheadTokens {
		for i := 0; ; {
			j := strings.Index(win[i:], tok)
			if j < 0 {
				break
			}
			s := lo + i + j
			if at > s && at < s+len(tok) {
				return true
			}
			i += j + 1
		}
	}
	return false
}

// alignToBuffer prepends whitespace to a text document so that one of its
// lookahead-hungry tokens (chosen by pick) straddles a 4096-byte boundary of
// the reader's bufio buffer. The document denotes the same values.
func alignToBuffer(doc []byte, pick func(n int) int) []byte {
	type occ struct{ pos, n int }
	var occs []occ
	s := string(doc)
	for _, tok := range lookaheadTokens {
		if len(tok) < 2 {
			continue
		}
		for i := 0; ; {
			j := strings.Index(s[i:], tok)
			if j < 0 {
				break
			}
			occs = append(occs, occ{i + j, len(tok)})
			i += j + 1
		}
	}
	if len(occs) == 0 {
		return doc
	}
	o := occs[pick(len(occs))]
	inside := 1 + pick(o.n-1) // how many bytes of the token lie before the boundary
	pad := (4096 - inside - o.pos%4096 + 4096) % 4096
	out := make([]byte, 0, pad+len(doc))
	if pad >= 4 && pick(2) == 1 {
		out = append(out, "/*"...)
		out = append(out, bytes.Repeat([]byte{'c'}, pad-4)...)
		out = append(out, "*/"...)
	} else {
		out = append(out, bytes.Repeat([]byte{' '}, pad)...)
	}
	return append(out, doc...)
}

func isBinaryDoc(doc []byte) bool {
	return len(doc) >= 4 && doc[0] == 0xE0 && doc[3] == 0xEA
}

func planClasses(c C19Read) (nt bool, classes []string) {
	format := "text"
	if isBinaryDoc(c.Doc) {
		format = "binary"
	}
	classes = append(classes, "format."+format)
	if len(c.Doc) > 4096 {
		classes = append(classes, "doc>4096")
	}
	if c.FailAt >= 0 {
		nt = c.FailAt > 0 && c.FailAt < len(c.Doc)
		if insideLookahead(c.Doc, c.FailAt) {
			classes = append(classes, "fault-inside-lookahead-token")
		}
		if c.FailWithData {
			classes = append(classes, "fault-with-data")
		}
		if c.TransientRead {
			classes = append(classes, "transient-read-fault")
		}
		if c.FailAt == len(c.Doc) {
			classes = append(classes, "fault-instead-of-eof")
		}
		return
	}
	switch {
	case len(c.Chunks) == 0:
		classes = append(classes, "plan.whole")
	case len(c.Chunks) == 1 && c.Chunks[0] == 1:
		classes = append(classes, "plan.byte-at-a-time")
		nt = len(c.Doc) > 1
	case len(c.Chunks) == 2 && c.Chunks[1] >= 1<<20:
		classes = append(classes, "plan.single-split")
		nt = c.Chunks[0] > 0 && c.Chunks[0] < len(c.Doc)
		if insideLookahead(c.Doc, c.Chunks[0]) {
			classes = append(classes, "split-inside-lookahead-token")
		}
	default:
		classes = append(classes, "plan.random-chunks")
		nt = len(c.Doc) > 1
	}
	if c.EOFWithData {
		classes = append(classes, "eof-with-data")
		nt = nt || len(c.Doc) > 0
	}
	if c.ZeroEvery > 0 {
		classes = append(classes, "zero-length-reads")
	}
	return
}

func shallowClass(c C19Read, classes []string) []string {
	if c.Shallow {
		return append(classes, "traversal.shallow(skip-containers)")
	}
	return append(classes, "traversal.full")
}

func planString(c C19Read) string {
	return fmt.Sprintf("chunks=%v eofWithData=%v zeroEvery=%d failAt=%d failWithData=%v shallow=%v transientRead=%v", clipInts(c.Chunks, 12), c.EOFWithData, c.ZeroEvery, c.FailAt, c.FailWithData, c.Shallow, c.TransientRead) + map[bool]string{true: fmt.Sprintf(" error=%q", c.failure()), false: ""}[c.ErrKind != 0]
}

func clipInts(x []int, n int) []int {
	if len(x) > n {
		return x[:n]
	}
	return x
}

func showDoc(doc []byte) string {
	if isBinaryDoc(doc) {
		return fmt.Sprintf("% x", clip(doc, 300))
	}
	return fmt.Sprintf("%q", clip(doc, 300))
}

// runC19Chunk: the plan must give the same values and the same final error as
// delivering the whole buffer at once.
func runC19Chunk(c C19Read) string {
	st := Stat("C19")
	c.FailAt = -1
	nt, classes := planClasses(c)
	classes = shallowClass(c, classes)
	base := observeReader(func() ion.Reader { return ion.NewReader(bytes.NewReader(c.Doc)) }, c.Shallow)
	if base.panic {
		st.Discard("whole-buffer run panics (C06's subject)")
		return ""
	}
	if base.err != "" {
		classes = append(classes, "invalid-document")
	}
	st.Eval(nt, model.DigestBytes("c19r"+planString(c), c.Doc), classes...)
	st.Sample(func() string { return fmt.Sprintf("doc=%s plan: %s", showDoc(c.Doc), planString(c)) })
	got := observeReader(func() ion.Reader { return ion.NewReader(&planReader{c: c}) }, c.Shallow)
	if got.panic {
		return fmt.Sprintf("reader panics under plan {%s} but not on the whole buffer: %s\ndoc: %s", planString(c), got.err, showDoc(c.Doc))
	}
	if d := model.DiffSeq(base.vals, got.vals); d != "" {
		return fmt.Sprintf("values depend on chunking {%s}: %s\nwhole-buffer error: %q, chunked error: %q\ndoc: %s", planString(c), d, base.err, got.err, showDoc(c.Doc))
	}
	if base.err != got.err {
		return fmt.Sprintf("final error depends on chunking {%s}: whole-buffer %q, chunked %q\ndoc: %s", planString(c), base.err, got.err, showDoc(c.Doc))
	}
	return ""
}

// runC19ReadFault: a failing io.Reader must surface as an error.
func runC19ReadFault(c C19Read) string {
	st := Stat("C19")
	if c.FailAt < 0 {
		c.FailAt = 0
	}
	if c.FailAt > len(c.Doc) {
		c.FailAt = len(c.Doc)
	}
	if c.TransientRead {
		// a one-off error returned together with data may legitimately be dropped
		// by io.ReadFull / bufio when the data satisfies the request (standard
		// library semantics), so one-off faults are always delivered alone
		c.FailWithData = false
	}
	nt, classes := planClasses(c)
	classes = shallowClass(c, classes)
	st.Eval(nt, model.DigestBytes("c19f"+planString(c), c.Doc), classes...)
	st.Sample(func() string { return fmt.Sprintf("doc=%s fault plan: %s", showDoc(c.Doc), planString(c)) })
	pr := &planReader{c: c}
	got := observeReader(func() ion.Reader { return ion.NewReader(pr) }, c.Shallow)
	if got.panic {
		return fmt.Sprintf("reader panics when the io.Reader fails {%s}: %s\ndoc: %s", planString(c), got.err, showDoc(c.Doc))
	}
	if got.err == "" {
		return fmt.Sprintf("io.Reader failed after %d of %d bytes {%s} but the traversal ended cleanly (Err()==nil) with %d values\ndoc: %s", c.FailAt, len(c.Doc), planString(c), len(got.vals), showDoc(c.Doc))
	}
	if !pr.fired {
		// the document is invalid before the fault position; nothing to judge
		st.Discard("error before the fault position")
	}
	return ""
}

// ---- documents

// c19Doc draws a document: reference text, reference binary, or ion-go writer
// output; sometimes shifted so that tokens straddle bufio's 4096-byte buffer;
// sometimes corrupted (chunking must not matter for invalid input either).
func c19Doc(t *rapid.T, allowInvalid bool) []byte {
	cfg := &gen.Cfg{MaxDepth: gen.Pick(t, []int{1, 2, 3}), AllowUnknown: true, Size: &gen.Size{Big: gen.Chance(t, 6)}}
	vals := gen.Seq(t, cfg, 4)
	if gen.Chance(t, 50) {
		vals = append(vals, gen.Pick(t, c19Hostile()))
	}
	vals = gen.SanitizeTop(vals)
	var doc []byte
	kind := gen.Intn(t, 6)
	switch kind {
	case 0, 1:
		doc = printDoc(vals, gen.RapidChooser{T: t}).Doc
	case 2, 3:
		doc = encodeDoc(vals, gen.RapidChooser{T: t}).Doc
	default:
		mode := drive.Mode(gen.Intn(t, 3))
		b, err := writeDoc(mode, vals, nil)
		if err != nil {
			b = printDoc(vals, gen.Canonical{}).Doc
		}
		doc = b
	}
	if gen.Chance(t, 12) {
		// shift the content so that it straddles the 4096-byte buffer boundary
		pad := 4096 - gen.Range(t, 0, 40)
		if isBinaryDoc(doc) {
			n := pad - 4 - 3
			var nop []byte
			nop = append(nop, 0x0E)
			nop = refbin.VarUInt(nop, uint64(n), 0)
			nop = append(nop, make([]byte, n)...)
			doc = append(append(append([]byte{}, doc[:4]...), nop...), doc[4:]...)
		} else {
			var sb bytes.Buffer
			if gen.Chance(t, 50) {
				sb.WriteString("/*")
				sb.WriteString(strings.Repeat("c", pad-4))
				sb.WriteString("*/")
			} else {
				sb.WriteString(strings.Repeat(" ", pad))
			}
			sb.Write(doc)
			doc = sb.Bytes()
		}
	}
	if isBinaryDoc(doc) && gen.Chance(t, 4) {
		// a last value longer than 64 KiB (the binary reader reads such values
		// incrementally)
		n := 65536 + gen.Pick(t, []int{1, 100, 4095, 4096, 20000})
		doc = append(append([]byte{}, doc...), c19BigValue(gen.Pick(t, []byte{0x8E, 0xAE, 0x9E}), n)...)
	}
	if allowInvalid && gen.Chance(t, 25) && len(doc) > 0 {
		doc = append([]byte{}, doc...)
		switch gen.Intn(t, 3) {
		case 0:
			doc = doc[:gen.Intn(t, len(doc))]
		case 1:
			i := gen.Intn(t, len(doc))
			doc[i] ^= byte(1 << gen.Intn(t, 8))
		default:
			i := gen.Intn(t, len(doc))
			doc = append(doc[:i], doc[i+1:]...)
		}
	}
	return doc
}

// c19BigValue is a binary string / blob / clob of n bytes.
func c19BigValue(tag byte, n int) []byte {
	out := append([]byte{tag}, refbin.VarUInt(nil, uint64(n), 0)...)
	return append(out, bytes.Repeat([]byte{'x'}, n)...)
}

// c19Hostile are values whose text spelling needs multi-byte lookahead.
func c19Hostile() []model.Value {
	return []model.Value{
		model.StrV("a'''b"), model.StrV("line1\nline2\r\nline3\rline4"), model.StrV(""), model.StrV("😀\u2028é"),
		model.SymV(model.S("+inf")), model.SymV(model.S("nan")), model.SymV(model.S("null.int")), model.SymV(model.S("::")), model.SymV(model.S("")),
		model.SexpV(model.SymV(model.S("+")), model.FloatV(inf(1)), model.SymV(model.S("-")), model.FloatV(inf(-1)), model.SymV(model.S("//")), model.Int64V(-1)),
		model.Int64V(5).WithAnn(model.S("a"), model.S("b"), model.S("'c d'")),
		model.ClobV([]byte("}}\"'''")), model.BlobV([]byte{0, 1, 2, 3, 4}), model.BlobV(nil), model.ClobV(nil),
		model.StructV(model.Field{Name: model.S("'''"), Val: model.StrV("'''")}, model.Field{Name: model.S("a"), Val: model.NullOf(model.Struct)}),
		model.ListV(model.FloatV(1e300), model.DecV(bigOf("123456789012345678901234567890"), -40, false), model.NullOf(model.Timestamp)),
		model.TSV(model.TS{Year: 2020, Month: 2, Day: 29, Hour: 23, Min: 59, Sec: 59, Nanos: 999000000, FracDigits: 3, Prec: model.PSecond, OffsetKnown: true, Offset: -480}),
		model.TSV(model.TS{Year: 1, Month: 1, Day: 1, Prec: model.PYear}),
		model.StrV(strings.Repeat("x", 5000)), model.BlobV(bytes.Repeat([]byte{0xAB}, 5000)), model.SymV(model.S(strings.Repeat("s", 4200))),
	}
}

func genC19Chunk(t *rapid.T) C19Read {
	c := C19Read{Doc: c19Doc(t, true), FailAt: -1}
	n := len(c.Doc)
	switch gen.Intn(t, 6) {
	case 0:
		c.Chunks = []int{1}
	case 1, 2:
		if n > 0 {
			c.Chunks = []int{gen.Intn(t, n+1), 1 << 20}
		}
	case 3:
		// split near the buffer boundary or near the end
		if n > 0 {
			at := gen.Pick(t, []int{4095, 4096, 4097, n - 1, n - 2, n - 3, 1, 2, 3, 4})
			if at < 0 || at > n {
				at = n / 2
			}
			c.Chunks = []int{at, 1 << 20}
		}
	default:
		k := gen.Range(t, 1, 8)
		for i := 0; i < k; i++ {
			c.Chunks = append(c.Chunks, gen.Pick(t, []int{1, 1, 2, 3, 4, 5, 7, 16, 100, 4095, 4096, 4097}))
		}
	}
	c.EOFWithData = gen.Chance(t, 25)
	if gen.Chance(t, 15) {
		c.ZeroEvery = gen.Range(t, 2, 5)
	}
	c.Shallow = gen.Chance(t, 30)
	return c
}

func genC19ReadFault(t *rapid.T) C19Read {
	c := C19Read{Doc: c19Doc(t, false)}
	c.FailAt = gen.Intn(t, len(c.Doc)+1)
	if gen.Chance(t, 15) {
		c.FailAt = len(c.Doc) - gen.Intn(t, 4)
		if c.FailAt < 0 {
			c.FailAt = 0
		}
	}
	c.FailWithData = gen.Chance(t, 40)
	c.Shallow = gen.Chance(t, 30)
	c.TransientRead = gen.Chance(t, 30)
	if gen.Chance(t, 40) {
		c.ErrKind = gen.Intn(t, len(c19ReadErrs))
	}
	if gen.Chance(t, 30) {
		k := gen.Range(t, 1, 4)
		for i := 0; i < k; i++ {
			c.Chunks = append(c.Chunks, gen.Pick(t, []int{1, 2, 3, 5, 16, 4096}))
		}
	}
	return c
}

// c19FixedDocs are the documents of the enumerated grids: hand-written ones
// with lookahead-hungry tokens, plus deterministic examples of the generator.
func c19FixedDocs(n int) [][]byte {
	texts := []string{
		"", " ", "a", "1", "null.int", "a::b::c 1 +inf -inf nan", "'''a''' '''b'''\n'''c'''", "{{ \"clob\" }} {{aGVsbG8=}} {{ '''a''' '''b''' }}",
		"[1, 2, [3, {a: 4, 'b c': \"d\"}], (+ - // x\n 5)]", "\"a\\\r\nb\" '''x\r\ny\rz'''", "$ion_1_0 $ion_symbol_table::{symbols:[\"s\"]} $10 $ion_1_0 a",
		"2001-02-03T04:05:06.789-08:00 2001T 2001-02T 2001-02-03 2001-02-03T", "1.5e10 1d-3 0x1F 0b101 1_000 -0.0 -0d0", "/* c */ a // d\n b /**/",
		"abc::'''s'''  abc :: def :: {}", "(a+b) (a + inf) (- 1)", "{a:{{}}, b:{{\"\"}}}", "null.struct null . int",
		"a::", "[1,", "\"abc", "{{ aGVsbG8", "'''abc", "/* x", "{a:}", "1 2 ]", "1.5.2", "0x", "\"\\q\"",
	}
	var out [][]byte
	for _, s := range texts {
		out = append(out, []byte(s))
	}
	bins := []string{
		"e00100ea", "e00100ea0f", "e00100ea2101 2102", "e00100eae7818383 d487b28161 7a", "e00100ea e4 8184 8161", "e00100ea b6 2101 b3 210211 10",
		"e00100ea de8a 84 8e 85 6162636465 0f", "e00100ea 6880 0fd0 81 81 80 80 80", "e00100ea 0e85 0000000000 11", "e00100ea e00100ea 11",
		"e00100ea d3 84 2101", "e00100ea b6 2101", "e00100ea 8e", "e00100ea 8e8a 61", "e00100ea e3 81 84",
	}
	for _, s := range bins {
		var b []byte
		s = strings.ReplaceAll(s, " ", "")
		for i := 0; i+1 < len(s); i += 2 {
			var x byte
			fmt.Sscanf(s[i:i+2], "%02x", &x)
			b = append(b, x)
		}
		out = append(out, b)
	}
	g := rapid.Custom(func(t *rapid.T) []byte { return c19Doc(t, true) })
	for i := 0; len(out) < n+len(texts)+len(bins); i++ {
		d := g.Example(i + 1)
		if len(d) > 400 {
			continue
		}
		out = append(out, d)
	}
	return out
}

// ---------------------------------------------------------------- write side

// C19Write is one (writer configuration, legal call sequence, fault) triple.
type C19Write struct {
	Config  int       `json:"config"` // 0 text, 1 pretty, 2 binary, 3 binary fixed LST
	SSTs    []SharedJ `json:"ssts,omitempty"`
	Calls   []CallJ   `json:"calls"`
	FailAt  int       `json:"fail_at"` // index of the first failing Write call
	Partial bool      `json:"partial"` // the failing call accepts half of its bytes
	// Transient: only Write call FailAt fails; later Write calls succeed again.
	Transient bool `json:"transient,omitempty"`
}

type faultWriter struct {
	failAt    int
	partial   bool
	transient bool
	calls     int
	accepted  []byte
	fired     bool
	// curCall is set by the driver to the index of the API call in progress;
	// firedIn records it when the fault fires.
	curCall, firedIn int
}

func (f *faultWriter) Write(b []byte) (int, error) {
	i := f.calls
	f.calls++
	if f.failAt >= 0 && i > f.failAt && f.transient {
		// the device works again; what it accepts now is no longer "before the
		// first failure" and is not recorded
		return len(b), nil
	}
	if f.failAt >= 0 && i >= f.failAt {
		if !f.fired {
			f.fired = true
			f.firedIn = f.curCall
			if f.partial && len(b) > 1 {
				n := len(b) / 2
				f.accepted = append(f.accepted, b[:n]...)
				return n, errInjected
			}
		}
		return 0, errInjected
	}
	f.accepted = append(f.accepted, b...)
	return len(b), nil
}

func c19FixedTable(c C19Write) ion.SymbolTable {
	seen := map[string]bool{}
	var texts []string
	add := func(s model.Sym) {
		if s.Known && !seen[s.Text] {
			seen[s.Text] = true
			texts = append(texts, s.Text)
		}
	}
	for _, call := range c.Calls {
		for _, s := range call.Syms {
			add(s)
		}
		if call.Val != nil {
			for _, s := range refbin.CollectSymbols([]model.Value{*call.Val}) {
				add(model.S(s))
			}
		}
	}
	return ion.NewLocalSymbolTable(ionSSTs(c.SSTs), texts)
}

func runC19Calls(c C19Write, fw *faultWriter) (errs []error, panicMsg string) {
	panicMsg = drive.Guard2(func() string {
		var w ion.Writer
		switch c.Config {
		case 0:
			w = ion.NewTextWriter(fw, ionSSTs(c.SSTs)...)
		case 1:
			w = ion.NewTextWriterOpts(fw, ion.TextWriterPretty, ionSSTs(c.SSTs)...)
		case 2:
			w = ion.NewBinaryWriter(fw, ionSSTs(c.SSTs)...)
		default:
			w = ion.NewBinaryWriterLST(fw, c19FixedTable(c))
		}
		for i, call := range c.Calls {
			fw.curCall = i
			errs = append(errs, doCall(w, call))
		}
		return ""
	})
	return
}

func runC19Write(c C19Write) string {
	st := Stat("C19")
	cfg := modeNames[c.Config]
	free := &faultWriter{failAt: -1}
	errs0, p0 := runC19Calls(c, free)
	if p0 != "" {
		st.Discard("fault-free run panics (C12's subject)")
		return ""
	}
	for _, e := range errs0 {
		if e != nil {
			st.Discard("writer_refused")
			return ""
		}
	}
	W := free.calls
	nt := c.FailAt > 0 && c.FailAt < W-1
	classes := []string{"write-fault", "config." + cfg}
	if c.Partial {
		classes = append(classes, "partial-write")
	}
	if c.Transient {
		classes = append(classes, "transient-fault")
	}
	if c.FailAt >= W {
		classes = append(classes, "fault-beyond-last-write")
	}
	st.Eval(nt, model.DigestBytes("c19w", []byte(fmt.Sprintf("%d %d %v %v %v %v", c.Config, c.FailAt, c.Partial, c.Transient, c.SSTs, c.Calls))), classes...)
	st.Max("max_write_calls", float64(W))
	st.Sample(func() string {
		return fmt.Sprintf("config=%s write calls=%d fail at write %d partial=%v transient=%v%s", cfg, W, c.FailAt, c.Partial, c.Transient, describeCalls(C12Case{Calls: c.Calls}, errs0))
	})
	fw := &faultWriter{failAt: c.FailAt, partial: c.Partial, transient: c.Transient}
	errs, pm := runC19Calls(c, fw)
	desc := func() string { return describeCalls(C12Case{Calls: c.Calls}, errs) }
	if pm != "" {
		return fmt.Sprintf("config=%s: writer panics when Write call %d fails: %s\ncalls:%s", cfg, c.FailAt, firstLine(pm, 300), desc())
	}
	if !bytes.HasPrefix(free.accepted, fw.accepted) {
		return fmt.Sprintf("config=%s: bytes accepted before the failure of Write call %d are not a prefix of the fault-free output\naccepted:   %q\nfault-free: %q\ncalls:%s", cfg, c.FailAt, clip(fw.accepted, 300), clip(free.accepted, 300), desc())
	}
	if !fw.fired {
		if !bytes.Equal(free.accepted, fw.accepted) {
			return fmt.Sprintf("config=%s: two fault-free runs differ", cfg)
		}
		return ""
	}
	// the failure must be reported by the call in which it happened or by a
	// later call up to and including the next Finish
	lastChance := len(c.Calls) - 1
	for i := fw.firedIn; i < len(c.Calls); i++ {
		if c.Calls[i].Op == "finish" {
			lastChance = i
			break
		}
	}
	first := -1
	for i, e := range errs {
		if e != nil {
			first = i
			break
		}
	}
	if first < 0 || first > lastChance {
		return fmt.Sprintf("config=%s: Write call %d (during API call %d, %s) failed but no call up to and including the next Finish (call %d) returned an error\ncalls:%s", cfg, c.FailAt, fw.firedIn, c.Calls[fw.firedIn], lastChance, desc())
	}
	if first < fw.firedIn {
		return fmt.Sprintf("config=%s: call %d returned an error before any write failed\ncalls:%s", cfg, first, desc())
	}
	for i := first + 1; i < len(errs); i++ {
		if errs[i] == nil && c.Calls[i].Op != "isinstruct" {
			return fmt.Sprintf("config=%s: Write call %d failed and call %d (%s) reported it, but later call %d (%s) returned nil\ncalls:%s", cfg, c.FailAt, first, c.Calls[first], i, c.Calls[i], desc())
		}
	}
	return ""
}

// flattenCalls turns values into a legal call sequence.
func flattenCalls(vals []model.Value, pick func(n int) int) []CallJ {
	var out []CallJ
	var rec func(v model.Value, name *model.Sym)
	rec = func(v model.Value, name *model.Sym) {
		if name != nil {
			out = append(out, CallJ{Op: "fieldname", Syms: []model.Sym{*name}})
		}
		if len(v.Ann) > 0 {
			if pick(2) == 0 {
				for _, a := range v.Ann {
					out = append(out, CallJ{Op: "annotation", Syms: []model.Sym{a}})
				}
			} else {
				out = append(out, CallJ{Op: "annotations", Syms: append([]model.Sym{}, v.Ann...)})
			}
		}
		v.Ann = nil
		if v.Kind.IsContainer() && !v.IsNull {
			k := map[model.Kind]string{model.List: "list", model.Sexp: "sexp", model.Struct: "struct"}[v.Kind]
			out = append(out, CallJ{Op: "begin:" + k})
			for _, e := range v.Elems {
				rec(e, nil)
			}
			for i := range v.Fields {
				rec(v.Fields[i].Val, &v.Fields[i].Name)
			}
			out = append(out, CallJ{Op: "end:" + k})
			return
		}
		vv := v
		out = append(out, CallJ{Op: "value", Val: &vv, Pick: pick(6)})
	}
	for _, v := range vals {
		rec(v, nil)
	}
	return out
}

func genC19WriteCalls(t *rapid.T) C19Write {
	cfg := &gen.Cfg{MaxDepth: gen.Pick(t, []int{1, 2, 3}), AllowUnknown: true, Size: &gen.Size{}}
	c := C19Write{Config: gen.Intn(t, 4)}
	if gen.Chance(t, 30) {
		c.SSTs = genSSTs(t, 2)
	}
	nb := gen.Pick(t, []int{1, 1, 2, 3})
	for i := 0; i < nb; i++ {
		vals := gen.Seq(t, cfg, 4)
		if gen.Chance(t, 30) {
			vals = append(vals, gen.Pick(t, c19Hostile()[:15]))
		}
		c.Calls = append(c.Calls, flattenCalls(gen.SanitizeTop(vals), func(n int) int { return gen.Intn(t, n) })...)
		c.Calls = append(c.Calls, CallJ{Op: "finish"})
	}
	// trailing calls after the last Finish exercise stickiness
	if gen.Chance(t, 50) {
		c.Calls = append(c.Calls, CallJ{Op: "finish"})
	}
	if gen.Chance(t, 30) {
		one := model.Int64V(1)
		c.Calls = append(c.Calls, CallJ{Op: "value", Val: &one}, CallJ{Op: "finish"})
	}
	return c
}

func countWrites(c C19Write) int {
	free := &faultWriter{failAt: -1}
	runC19Calls(c, free)
	return free.calls
}

func genC19Write(t *rapid.T) C19Write {
	c := genC19WriteCalls(t)
	W := countWrites(c)
	c.FailAt = gen.Intn(t, W+1)
	c.Partial = gen.Chance(t, 40)
	c.Transient = gen.Chance(t, 35)
	return c
}

func bigOf(s string) *big.Int { v, _ := new(big.Int).SetString(s, 10); return v }

func inf(sign int) float64 { return math.Inf(sign) }

func TestC19(t *testing.T) {
	chunk := Prop[C19Read]{ID: "C19", Sub: "chunking", Gen: genC19Chunk, Run: runC19Chunk, Quick: 6000, Thorough: 100000}
	fault := Prop[C19Read]{ID: "C19", Sub: "read-fault", Gen: genC19ReadFault, Run: runC19ReadFault, Quick: 6000, Thorough: 100000}
	write := Prop[C19Write]{ID: "C19", Sub: "write-fault", Gen: genC19Write, Run: runC19Write, Quick: 5000, Thorough: 80000}

	docs := c19FixedDocs(Scale(60, 300))
	// every single split point, byte-at-a-time, whole, each with and without
	// EOF-with-data, for every fixed document
	EnumerateSharded(t, chunk, "all-split-points", func(shard, nshards int, yield func(C19Read) bool) {
		for di, d := range docs {
			if di%nshards != shard {
				continue
			}
			for k := 0; k < 4; k++ {
				eofData, sh := k&1 == 1, k&2 == 2
				if !yield(C19Read{Doc: d, FailAt: -1, EOFWithData: eofData, Shallow: sh}) || !yield(C19Read{Doc: d, FailAt: -1, Chunks: []int{1}, EOFWithData: eofData, Shallow: sh}) {
					return
				}
				if !yield(C19Read{Doc: d, FailAt: -1, Chunks: []int{1}, EOFWithData: eofData, ZeroEvery: 2, Shallow: sh}) {
					return
				}
				for i := 1; i < len(d); i++ {
					if !yield(C19Read{Doc: d, FailAt: -1, Chunks: []int{i, 1 << 20}, EOFWithData: eofData, Shallow: sh}) {
						return
					}
				}
			}
		}
	})
	// a read failure at every byte offset, alone and together with data
	EnumerateSharded(t, fault, "fault-at-every-offset", func(shard, nshards int, yield func(C19Read) bool) {
		for di, d := range docs {
			if di%nshards != shard {
				continue
			}
			// only documents that are valid as a whole: an invalid one errors anyway
			if o := observeReader(func() ion.Reader { return ion.NewReaderBytes(d) }); o.err != "" {
				continue
			}
			for k := 0; k <= len(d); k++ {
				for m := 0; m < 8; m++ {
					wd, sh, tr := m&1 == 1, m&2 == 2, m&4 == 4
					if !yield(C19Read{Doc: d, FailAt: k, FailWithData: wd, Shallow: sh, TransientRead: tr}) || !yield(C19Read{Doc: d, FailAt: k, FailWithData: wd, Chunks: []int{1}, Shallow: sh, TransientRead: tr}) {
						return
					}
					// the same with error values a reader might mistake for an end of data
					if !yield(C19Read{Doc: d, FailAt: k, FailWithData: wd, Shallow: sh, TransientRead: tr, ErrKind: 1 + (k+m)%(len(c19ReadErrs)-1)}) {
						return
					}
				}
			}
		}
	})
	// a write failure at every Write call index
	wg := rapid.Custom(genC19WriteCalls)
	nw := Scale(40, 200)
	EnumerateSharded(t, write, "fault-at-every-write", func(shard, nshards int, yield func(C19Write) bool) {
		for i := 0; i < nw; i++ {
			if i%nshards != shard {
				continue
			}
			c := wg.Example(i + 1)
			W := countWrites(c)
			step := 1
			if W > 2000 {
				step = W / 2000
			}
			for j := 0; j <= W; j += step {
				for m := 0; m < 4; m++ {
					cc := c
					cc.FailAt, cc.Partial, cc.Transient = j, m&1 == 1, m&2 == 2
					if !yield(cc) {
						return
					}
				}
			}
		}
	})
	// documents ending in a value longer than 64 KiB under the coarse plans
	Enumerate(t, chunk, "big-last-value", func(yield func(C19Read) bool) {
		for _, n := range []int{65537, 70000, 65536 + 4096} {
			for _, tag := range []byte{0x8E, 0xAE} {
				d := append(append(append([]byte{}, refbin.IVM...), 0x21, 0x01), c19BigValue(tag, n)...)
				if tag == 0xAE {
					// two lobs above 64 KiB (different content) and a trailing value: what
					// was returned for the first must survive reading the second
					second := c19BigValue(0x9E, n+17)
					for i := len(second) - n - 17; i < len(second); i++ {
						second[i] = byte('A' + i%7)
					}
					d = append(append(d, second...), 0x21, 0x02)
				}
				for k := 0; k < 4; k++ {
					for _, chunks := range [][]int{nil, {4096}, {1 << 20}, {5000, 70000}, {100000}} {
						if !yield(C19Read{Doc: d, FailAt: -1, Chunks: chunks, EOFWithData: k&1 == 1, Shallow: k&2 == 2}) {
							return
						}
					}
				}
			}
		}
	})
	RunProp(t, chunk)
	RunProp(t, fault)
	RunProp(t, write)
}

var _ = io.EOF

func init() {
	Describe("C19",
		"cases: (a) chunking: (document, delivery plan) with documents from the reference text printer, the reference binary encoder and ion-go's own writers, 25% corrupted by a truncation / bit flip / deletion, 12% shifted so that the content straddles bufio's 4096-byte buffer; plans: whole, byte-at-a-time, every single split point (enumerated for the fixed documents, sampled otherwise), cyclic random chunk sizes, data returned together with io.EOF, interspersed (0,nil) reads. (b) read-fault: valid document, the io.Reader delivers k bytes then fails persistently, for every k in 0..len (enumerated for the fixed documents), error alone or together with the last data. (c) write-fault: legal Writer call sequence (1-3 Finish-separated batches, optional trailing Finish / value+Finish) x {text, pretty, binary, binary fixed table} x shared tables, the io.Writer accepts j Write calls then fails persistently, for every j in 0..W (enumerated for the fixed sequences), failing call accepting nothing or half of its bytes. Non-trivial: split / fault position strictly inside the document (resp. strictly between the first and last Write call). Distinct by digest(document or calls, plan).",
		"oracle (a) metamorphic: values observed by a full traversal and the final error text equal those of the whole-buffer run; (b) validity: the traversal ends with a non-nil error, never a panic, never a clean end; (c) validity: the call during which the write failed or a later call up to and including the next Finish returns an error, every call after the first error returns an error, the bytes the io.Writer accepted are a prefix of the fault-free output, no panic",
		"the fixed documents of the enumerated grids are hand-written lookahead-hungry texts / binaries plus deterministic examples of the same generator (rapid Example(i)); io.Reader plans return at most one (0,nil) in a row (bufio gives up after 100)",
	)
}
