package checks

import (
	"bytes"
	"fmt"
	"os"
	"os/exec"
	"path/filepath"
	"strings"
	"sync"
	"testing"

	"pgregory.net/rapid"

	"verif/h/gen"
	"verif/h/model"
	"verif/h/refbin"
	"verif/h/reftext"
)

// C20 — the ion-go process command is a faithful transcoder.

type C20Case struct {
	Doc    []byte `json:"doc"`
	Format string `json:"format"` // text pretty binary events none "" (default)
	Stdin  bool   `json:"stdin"`
	// Opts: 1 = no -o (output on stdout), 2 = no -e (error report on stderr),
	// 4 = long option names and "--" before the input file
	Opts int `json:"opts,omitempty"`
	// Doc2: a second input file, processed after Doc in the same run (file route only)
	Doc2 []byte `json:"doc2,omitempty"`
}

type cliResult struct {
	out, errReport, stderr []byte
	exit                   int
	runErr                 error
}

func runCLI(c C20Case) cliResult {
	cli := os.Getenv("VERIF_CLI")
	if cli == "" {
		harnessBug("VERIF_CLI not set")
	}
	base := os.Getenv("VERIF_TMP")
	if base == "" {
		base = os.TempDir()
	}
	dir, err := os.MkdirTemp(base, "c20-")
	if err != nil {
		harnessBug("tempdir: %v", err)
	}
	defer os.RemoveAll(dir)
	in, out, errf := filepath.Join(dir, "in.ion"), filepath.Join(dir, "out"), filepath.Join(dir, "err")
	// the output and error-report paths already exist and hold longer, unrelated
	// content: process must replace it, not overwrite its beginning
	stale := bytes.Repeat([]byte("stale output from an earlier run\n"), 4000)
	os.WriteFile(out, stale, 0o644)
	os.WriteFile(errf, stale, 0o644)
	oo, oe, of := "-o", "-e", "-f"
	if c.Opts&4 != 0 {
		oo, oe, of = "--output", "--error-report", "--output-format"
	}
	args := []string{"process"}
	if c.Opts&1 == 0 {
		args = append(args, oo, out)
	}
	if c.Opts&2 == 0 {
		args = append(args, oe, errf)
	}
	if c.Format != "" {
		args = append(args, of, c.Format)
	}
	if c.Opts&4 != 0 && !c.Stdin {
		args = append(args, "--")
	}
	cmd := exec.Command(cli, args...)
	if c.Stdin {
		cmd.Stdin = bytes.NewReader(c.Doc)
	} else {
		if err := os.WriteFile(in, c.Doc, 0o644); err != nil {
			harnessBug("write input: %v", err)
		}
		cmd.Args = append(cmd.Args, in)
		if c.Doc2 != nil {
			in2 := filepath.Join(dir, "in2.ion")
			if err := os.WriteFile(in2, c.Doc2, 0o644); err != nil {
				harnessBug("write input: %v", err)
			}
			cmd.Args = append(cmd.Args, in2)
		}
	}
	var stderr, stdout bytes.Buffer
	cmd.Stderr, cmd.Stdout = &stderr, &stdout
	var r cliResult
	r.runErr = cmd.Run()
	if cmd.ProcessState != nil {
		r.exit = cmd.ProcessState.ExitCode()
	}
	r.out, _ = os.ReadFile(out)
	r.errReport, _ = os.ReadFile(errf)
	r.stderr = append([]byte{}, stderr.Bytes()...)
	if c.Opts&2 != 0 {
		r.errReport = append([]byte{}, stderr.Bytes()...)
	}
	if c.Opts&1 != 0 {
		r.out = append([]byte{}, stdout.Bytes()...)
	} else {
		r.stderr = append(r.stderr, stdout.Bytes()...)
	}
	return r
}

// sourceValues classifies the input with the reference decoder.
func c20Source(doc []byte) (vals []model.Value, valid, witness bool) {
	var err error
	if isBinaryDoc(doc) {
		var res *refbin.Result
		res, err = refbin.Decode(doc, refbin.Options{})
		if err == nil {
			return res.Values, true, false
		}
	} else {
		var res *reftext.Result
		res, err = reftext.Parse(doc, reftext.Options{})
		if err == nil {
			return res.Values, true, false
		}
	}
	w, _ := refVerdict(doc)
	return nil, false, w
}

func upperType(v model.Value) string { return strings.ToUpper(v.Kind.String()) }

// fieldText extracts the Text of a marshalled SymbolToken struct ({Text:..,..}).
func tokenText(v model.Value) (string, bool) {
	for _, f := range v.Fields {
		if f.Name.Known && strings.EqualFold(f.Name.Text, "text") && f.Val.Kind == model.String && !f.Val.IsNull {
			return f.Val.Text, true
		}
	}
	return "", false
}

func field(v model.Value, name string) (model.Value, bool) {
	for _, f := range v.Fields {
		if f.Name.Known && f.Name.Text == name {
			return f.Val, true
		}
	}
	return model.Value{}, false
}

type wantEvent struct {
	typ   string
	val   *model.Value // scalar (annotations stripped) for SCALAR
	itype string
	name  *model.Sym
	ann   []model.Sym
	depth int
}

func flattenEvents(vals []model.Value) []wantEvent {
	var out []wantEvent
	var walk func(v model.Value, name *model.Sym, depth int)
	walk = func(v model.Value, name *model.Sym, depth int) {
		if v.Kind.IsContainer() && !v.IsNull {
			out = append(out, wantEvent{typ: "CONTAINER_START", itype: upperType(v), name: name, ann: v.Ann, depth: depth})
			for _, e := range v.Elems {
				walk(e, nil, depth+1)
			}
			for i := range v.Fields {
				walk(v.Fields[i].Val, &v.Fields[i].Name, depth+1)
			}
			out = append(out, wantEvent{typ: "CONTAINER_END", itype: upperType(v), depth: depth})
			return
		}
		s := v
		s.Ann = nil
		out = append(out, wantEvent{typ: "SCALAR", itype: upperType(v), val: &s, name: name, ann: v.Ann, depth: depth})
	}
	for _, v := range vals {
		walk(v, nil, 0)
	}
	out = append(out, wantEvent{typ: "STREAM_END"})
	return out
}

func checkEvents(out []byte, vals []model.Value) string {
	res, err := reftext.Parse(out, reftext.Options{})
	if err != nil {
		return fmt.Sprintf("the event stream is not valid Ion text: %v", err)
	}
	if len(res.Values) == 0 || res.Values[0].Kind != model.Symbol || res.Values[0].Sym.Text != "$ion_event_stream" {
		return "the event stream does not start with $ion_event_stream"
	}
	evs := res.Values[1:]
	want := flattenEvents(vals)
	if len(evs) != len(want) {
		return fmt.Sprintf("%d events, expected %d (one per value, container boundary and stream end)", len(evs), len(want))
	}
	for i, w := range want {
		e := evs[i]
		if e.Kind != model.Struct || e.IsNull {
			return fmt.Sprintf("event %d is not a struct: %s", i, e.String())
		}
		sym := func(name string) string {
			v, ok := field(e, name)
			if !ok || v.Kind != model.Symbol || v.IsNull {
				return ""
			}
			return v.Sym.Text
		}
		if got := sym("event_type"); got != w.typ {
			return fmt.Sprintf("event %d has event_type %q, expected %s: %s", i, got, w.typ, e.String())
		}
		d, ok := field(e, "depth")
		if !ok || d.Kind != model.Int || d.Int.Int64() != int64(w.depth) {
			return fmt.Sprintf("event %d has depth %s, expected %d: %s", i, d.String(), w.depth, e.String())
		}
		if w.typ == "STREAM_END" {
			continue
		}
		if got := sym("ion_type"); got != w.itype {
			return fmt.Sprintf("event %d has ion_type %q, expected %s: %s", i, got, w.itype, e.String())
		}
		fn, has := field(e, "field_name")
		if has != (w.name != nil) {
			return fmt.Sprintf("event %d: field_name present=%v, expected present=%v: %s", i, has, w.name != nil, e.String())
		}
		if has && w.name.Known {
			if txt, ok := tokenText(fn); !ok || txt != w.name.Text {
				return fmt.Sprintf("event %d: field_name %s, expected text %q", i, fn.String(), w.name.Text)
			}
		}
		an, has := field(e, "annotations")
		if has != (len(w.ann) > 0) {
			return fmt.Sprintf("event %d: annotations present=%v, expected %d annotations: %s", i, has, len(w.ann), e.String())
		}
		if has {
			if an.Kind != model.List || len(an.Elems) != len(w.ann) {
				return fmt.Sprintf("event %d: annotations %s, expected %d of them", i, an.String(), len(w.ann))
			}
			for j, a := range w.ann {
				if txt, ok := tokenText(an.Elems[j]); a.Known && (!ok || txt != a.Text) {
					return fmt.Sprintf("event %d: annotation %d is %s, expected text %q", i, j, an.Elems[j].String(), a.Text)
				}
			}
		}
		if w.typ == "SCALAR" {
			vt, ok := field(e, "value_text")
			if !ok || vt.Kind != model.String {
				return fmt.Sprintf("event %d (scalar) has no value_text: %s", i, e.String())
			}
			pr, err := reftext.Parse([]byte(vt.Text), reftext.Options{})
			if err != nil || len(pr.Values) != 1 {
				// a symbol whose text is a version marker reads as one; compare text
				if w.val.Kind == model.Symbol && w.val.Sym.Known && gen.IVMShaped(w.val.Sym.Text) && strings.Trim(vt.Text, "'") == w.val.Sym.Text {
					continue
				}
				return fmt.Sprintf("event %d: value_text %q is not one Ion value (%v)", i, vt.Text, err)
			}
			if dd := model.Diff(*w.val, pr.Values[0]); dd != "" {
				return fmt.Sprintf("event %d: value_text %q does not denote the value %s: %s", i, vt.Text, w.val.String(), dd)
			}
		}
	}
	return ""
}

// runC20 runs one input through one format, or (Format "*") through all six
// formats concurrently, reporting the first failure.
func runC20(c C20Case) string {
	if c.Format != "*" {
		return runC20One(c)
	}
	formats := []string{"text", "pretty", "binary", "events", "none", ""}
	msgs := make([]string, len(formats))
	var wg sync.WaitGroup
	for i, f := range formats {
		wg.Add(1)
		go func(i int, f string) {
			defer wg.Done()
			cc := c
			cc.Format = f
			msgs[i] = safeRun(runC20One, cc)
		}(i, f)
	}
	wg.Wait()
	for _, m := range msgs {
		if m != "" {
			return m
		}
	}
	return ""
}

func runC20One(c C20Case) string {
	st := Stat("C20")
	vals, valid, witness := c20Source(c.Doc)
	if c.Doc2 != nil && !c.Stdin {
		// two input files: the output holds the values of both, in order
		vals2, valid2, witness2 := c20Source(c.Doc2)
		if !valid || !valid2 {
			return runC20TwoBad(st, c, valid, witness, valid2, witness2)
		}
		vals = append(append([]model.Value{}, vals...), vals2...)
	}
	format := c.Format
	if format == "" {
		format = "default(pretty)"
	}
	nt := false
	for _, v := range vals {
		v.Walk(func(x model.Value) {
			if x.IsNull && x.Kind != model.Null || x.Kind == model.Struct {
				nt = true
			}
		})
	}
	route := map[bool]string{true: "stdin", false: "file"}[c.Stdin]
	if c.Doc2 != nil && !c.Stdin {
		route = "two-files"
	}
	if c.Opts != 0 {
		route += fmt.Sprintf("+opts%d", c.Opts)
	}
	cls := "source.valid"
	if !valid {
		cls = map[bool]string{true: "source.invalid", false: "source.undecided"}[witness]
	}
	st.Eval(nt || !valid, model.DigestBytes("c20 "+c.Format+route, append(append([]byte{}, c.Doc...), c.Doc2...)), "format."+format, "input."+route, cls, map[bool]string{true: "source.binary", false: "source.text"}[isBinaryDoc(c.Doc)])
	st.Sample(func() string { return fmt.Sprintf("-f %s via %s: %s", format, route, showDoc(c.Doc)) })
	r := runCLI(c)
	desc := func() string {
		return fmt.Sprintf("\ncommand: ion-go process -f %s (input via %s)\ninput: %s\nstderr/stdout: %q\noutput: %s\nerror report: %q", format, route, showDoc(c.Doc), clip(r.stderr, 600), showDoc(r.out), clip(r.errReport, 400))
	}
	if bytes.Contains(r.stderr, []byte("panic:")) || bytes.Contains(r.stderr, []byte("goroutine ")) || bytes.Contains(r.stderr, []byte("fatal error")) {
		return "ion-go process panicked" + desc()
	}
	if r.exit != 0 {
		return fmt.Sprintf("ion-go process exited with status %d (%v)", r.exit, r.runErr) + desc()
	}
	if !valid {
		if !witness {
			return "" // validity undecided: only "no crash" is judged
		}
		res, err := reftext.Parse(r.errReport, reftext.Options{})
		if err != nil {
			return fmt.Sprintf("the error report is not valid Ion text: %v", err) + desc()
		}
		n := 0
		for _, v := range res.Values {
			if _, ok := field(v, "error_type"); ok && v.Kind == model.Struct {
				n++
			}
		}
		if n == 0 {
			return "invalid input but the error report has no entry with error_type" + desc()
		}
		return ""
	}
	if len(bytes.TrimSpace(r.errReport)) != 0 {
		return "valid input but the error report is not empty" + desc()
	}
	unknown := false
	for _, v := range vals {
		v.Walk(func(x model.Value) {
			for _, a := range x.Ann {
				unknown = unknown || !a.Known
			}
			for _, f := range x.Fields {
				unknown = unknown || !f.Name.Known
			}
			unknown = unknown || (x.Kind == model.Symbol && !x.IsNull && !x.Sym.Known)
		})
	}
	if unknown {
		// a symbol of unknown text may be $0 or point at an undefined slot, which
		// ion-go reads as the text "" by design (DESIGN 13.3): values are not judged
		st.Discard("valid input with a symbol of unknown text: judged for no-crash only")
		return ""
	}
	switch c.Format {
	case "none":
		if len(r.out) != 0 {
			return "format none but output was written" + desc()
		}
	case "events":
		if msg := checkEvents(r.out, vals); msg != "" {
			return msg + desc()
		}
	case "binary":
		res, err := refbin.Decode(r.out, refbin.Options{RequireIVM: true})
		if err != nil {
			return fmt.Sprintf("binary output is not valid Ion: %v", err) + desc()
		}
		if d := model.DiffSeq(vals, res.Values); d != "" {
			return "binary output denotes different values: " + d + desc()
		}
	default:
		res, err := reftext.Parse(r.out, reftext.Options{})
		if err != nil {
			return fmt.Sprintf("text output is not valid Ion: %v", err) + desc()
		}
		if d := model.DiffSeq(vals, res.Values); d != "" {
			return "text output denotes different values: " + d + desc()
		}
	}
	return ""
}

// runC20TwoBad: two input files of which at least one is invalid. Every file the
// reference rejects (for a catalogued reason) gets an entry of its own in the
// error report, naming that file -- also when both fail in the same way at the
// same place.
func runC20TwoBad(st *Stats, c C20Case, valid, witness, valid2, witness2 bool) string {
	st.Eval(true, model.DigestBytes("c20 two-bad "+c.Format, append(append([]byte{}, c.Doc...), c.Doc2...)), "format."+c.Format, "input.two-files-invalid",
		map[bool]string{true: "two-files.same-document", false: "two-files.different-documents"}[bytes.Equal(c.Doc, c.Doc2)])
	st.Sample(func() string { return fmt.Sprintf("-f %s via two files: %s | %s", c.Format, showDoc(c.Doc), showDoc(c.Doc2)) })
	r := runCLI(c)
	desc := func() string {
		return fmt.Sprintf("\ncommand: ion-go process -f %s in.ion in2.ion\ninput 1: %s\ninput 2: %s\nstderr/stdout: %q\nerror report: %q", c.Format, showDoc(c.Doc), showDoc(c.Doc2), clip(r.stderr, 600), clip(r.errReport, 600))
	}
	if bytes.Contains(r.stderr, []byte("panic:")) || bytes.Contains(r.stderr, []byte("goroutine ")) || bytes.Contains(r.stderr, []byte("fatal error")) {
		return "ion-go process panicked" + desc()
	}
	if r.exit != 0 {
		return fmt.Sprintf("ion-go process exited with status %d (%v)", r.exit, r.runErr) + desc()
	}
	if (!valid && !witness) || (!valid2 && !witness2) {
		return "" // validity of one file undecided: only "no crash" is judged
	}
	res, err := reftext.Parse(r.errReport, reftext.Options{})
	if err != nil {
		return fmt.Sprintf("the error report is not valid Ion text: %v", err) + desc()
	}
	for i, bad := range []bool{!valid, !valid2} {
		if !bad {
			continue
		}
		name := []string{"in.ion", "in2.ion"}[i]
		found := false
		for _, v := range res.Values {
			if _, ok := field(v, "error_type"); !ok || v.Kind != model.Struct {
				continue
			}
			if loc, ok := field(v, "location"); ok && loc.Kind == model.String && strings.HasSuffix(loc.Text, string(os.PathSeparator)+name) {
				found = true
			}
		}
		if !found {
			return fmt.Sprintf("input file %d (%s) is invalid but the error report has no entry for it", i+1, name) + desc()
		}
	}
	return ""
}

func genC20(t *rapid.T) C20Case {
	c := C20Case{Format: "*", Stdin: gen.Chance(t, 40)}
	if gen.Chance(t, 30) {
		c.Opts = gen.Intn(t, 8)
	}
	switch gen.Intn(t, 10) {
	case 0, 1:
		c.Doc = genC07(t).Doc // edited (mostly invalid) documents
		if !c.Stdin && gen.Chance(t, 35) {
			// a second input file: the same document again, or another edited one
			if gen.Chance(t, 50) {
				c.Doc2 = append([]byte{}, c.Doc...)
			} else {
				c.Doc2 = genC07(t).Doc
			}
			if c.Doc2 == nil {
				c.Doc2 = []byte{}
			}
		}
	case 2:
		h := c10History(t, false, false)
		if len(h.Catalog) == 0 {
			c.Doc = h.Doc
			break
		}
		fallthrough
	default:
		cfg := &gen.Cfg{MaxDepth: gen.Pick(t, []int{1, 2, 3}), AllowUnknown: false, Size: &gen.Size{}}
		vals := gen.SanitizeTop(gen.Seq(t, cfg, 5))
		if gen.Chance(t, 50) {
			c.Doc = printDoc(vals, gen.RapidChooser{T: t}).Doc
		} else {
			c.Doc = encodeDoc(vals, gen.RapidChooser{T: t}).Doc
		}
		if !c.Stdin && gen.Chance(t, 30) {
			// a second input file (text or binary, independently of the first)
			vals2 := gen.SanitizeTop(gen.Seq(t, cfg, 4))
			if gen.Chance(t, 50) {
				c.Doc2 = printDoc(vals2, gen.RapidChooser{T: t}).Doc
			} else {
				c.Doc2 = encodeDoc(vals2, gen.RapidChooser{T: t}).Doc
			}
		}
	}
	return c
}

func TestC20(t *testing.T) {
	p := Prop[C20Case]{ID: "C20", Sub: "process", Gen: genC20, Run: runC20, Quick: 100, Thorough: 600}
	// every type, typed null and container shape x every format x both input routes
	EnumerateSharded(t, p, "types-x-formats", func(shard, nshards int, yieldAll func(C20Case) bool) {
		n := 0
		yield := func(c C20Case) bool {
			n++
			if n%nshards != shard {
				return true
			}
			return yieldAll(c)
		}
		var vals []model.Value
		for k := model.Null; k <= model.Struct; k++ {
			vals = append(vals, model.NullOf(k))
		}
		vals = append(vals, model.BoolV(true), model.Int64V(-5), model.IntV(bigOf("18446744073709551616")), model.FloatV(1.5), model.DecV(bigOf("15"), -1, false),
			model.TSV(model.TS{Year: 2020, Month: 2, Day: 29, Hour: 1, Min: 2, Sec: 3, Prec: model.PSecond, OffsetKnown: true}), model.SymV(model.S("sym")), model.SymV(model.S("a b")),
			model.StrV("str"), model.ClobV([]byte("clob")), model.BlobV([]byte{1, 2}),
			model.ListV(model.Int64V(1), model.ListV()), model.SexpV(model.SymV(model.S("+")), model.Int64V(2)),
			model.StructV(model.Field{Name: model.S("a"), Val: model.Int64V(1)}, model.Field{Name: model.S("b"), Val: model.StructV(model.Field{Name: model.S("c"), Val: model.NullOf(model.String)})}),
			model.Int64V(7).WithAnn(model.S("x"), model.S("y")), model.StructV().WithAnn(model.S("x")), model.NullOf(model.Symbol).WithAnn(model.S("x")),
			model.StructV(model.Field{Name: model.S("n"), Val: model.NullOf(model.Symbol)}, model.Field{Name: model.S("m"), Val: model.Int64V(1)}))
		docs := [][]byte{}
		// several lobs in one stream (the events writer renders each on its own)
		lobs := []model.Value{model.ClobV([]byte("ab")), model.ClobV([]byte("cd")), model.BlobV([]byte{1}), model.ClobV(nil), model.BlobV([]byte{2, 3}), model.ListV(model.ClobV([]byte("e")), model.ClobV([]byte("f")))}
		docs = append(docs, printDoc(lobs, nil).Doc, encodeDoc(lobs, nil).Doc)
		// symbols, annotations and field names without text ($0): judged for
		// "no crash, exit status 0" (what becomes of them is not decided here)
		docs = append(docs, []byte("$0::2"), []byte("{f:b::$0::3}"), []byte("$0"), []byte("{$0:1}"), []byte("[$0, a::$0]"),
			append(append([]byte{}, refbin.IVM...), 0xE3, 0x81, 0x80, 0x20), append(append([]byte{}, refbin.IVM...), 0xD2, 0x80, 0x20), append(append([]byte{}, refbin.IVM...), 0x70))
		for _, v := range vals {
			docs = append(docs, printDoc([]model.Value{v}, nil).Doc, encodeDoc([]model.Value{v}, nil).Doc)
		}
		// containers nested 70 and 130 deep (structs, and mixed)
		deepS := model.Int64V(1)
		for i := 0; i < 130; i++ {
			deepS = model.StructV(model.Field{Name: model.S("a"), Val: deepS})
			if i == 69 {
				docs = append(docs, printDoc([]model.Value{deepS}, nil).Doc, encodeDoc([]model.Value{deepS}, nil).Doc)
			}
		}
		docs = append(docs, printDoc([]model.Value{deepS}, nil).Doc)
		deepM := model.Int64V(1)
		for i := 0; i < 80; i++ {
			switch i % 3 {
			case 0:
				deepM = model.StructV(model.Field{Name: model.S("f"), Val: deepM}, model.Field{Name: model.S("g"), Val: model.Int64V(int64(i))})
			case 1:
				deepM = model.ListV(deepM)
			default:
				deepM = model.SexpV(deepM)
			}
		}
		docs = append(docs, printDoc([]model.Value{deepM}, nil).Doc)
		docs = append(docs, printDoc(vals, nil).Doc, encodeDoc(vals, nil).Doc, []byte(""), []byte("[1,"), []byte("{a:"), []byte("\"abc"), refbin.IVM, append(append([]byte{}, refbin.IVM...), 0xB6, 0x21))
		for i, d := range docs {
			// file input for every document, stdin for every third one (process
			// creation dominates the cost of this check)
			if !yield(C20Case{Doc: d, Format: "*", Stdin: false}) {
				return
			}
			if (i%3 == 0 || Thorough()) && !yield(C20Case{Doc: d, Format: "*", Stdin: true}) {
				return
			}
		}
	})
	RunProp(t, p)
}

func init() {
	Describe("C20",
		"cases: (input document, -f format in {text, pretty, binary, events, none, default}, input via file argument or stdin): documents of all types, typed nulls, annotations, nested containers from the reference printer / encoder with spelling variety, streams with local symbol tables, and 20% edited (mostly invalid) documents from the C07 catalogue, 35% of those given as files with a second file beside them (the same document again, or another edited one); enumerated: every type, every typed null and several container shapes, each alone and all together, in text and binary x 6 formats x 2 input routes, plus truncated inputs. The CLI is rebuilt from the working tree and run as a subprocess with -o / -e files. Non-trivial: the input contains a typed null or a struct, or is invalid. Distinct by digest(input, format, route).",
		"oracle: exit status 0 and no 'panic:' / 'goroutine ' / 'fatal error' on stderr or stdout for every input; valid input (reference decoder): empty error report; text / pretty / binary output reference-decodes to the input's values (symbols by text); events output parses as $ion_event_stream followed by exactly one struct per value, container start, container end and a final STREAM_END, with event_type, ion_type, depth, field_name and annotations present exactly where the input has them (texts equal) and value_text reference-parsing to the scalar; none: empty output; invalid input (reference rejects for a reason in the C07 catalogue): the error report parses and has at least one struct with error_type; with two input files, one such struct whose location names the file for every file the reference rejects",
		"inputs whose validity the reference leaves undecided are judged for 'no crash' only",
	)
}
