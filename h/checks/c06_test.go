package checks

import (
	"bufio"
	"bytes"
	"encoding/binary"
	"encoding/json"
	"fmt"
	"io"
	"os"
	"os/exec"
	"strings"
	"sync"
	"testing"
	"time"

	"pgregory.net/rapid"

	"verif/h/gen"
	"verif/h/model"
	"verif/h/refbin"
	"verif/h/reftext"
)

// C06 — no input can crash, hang or exhaust memory.

// C06Case is one (program kind, argument, input) record for the worker.
type C06Case struct {
	Kind  int    `json:"kind"` // 0 traverse, 1 navigate, 2 Decoder.Decode, 3 Unmarshal, 4 Decoder.DecodeTo, 5 traverse with a catalog
	Arg   []byte `json:"arg,omitempty"`
	Input []byte `json:"input"`
	Src   string `json:"src,omitempty"`
}

var c06Kinds = []string{"traverse", "navigate", "decode", "unmarshal", "decode-to", "traverse-with-catalog"}

type c06Reply struct {
	Status string `json:"st"`
	Alloc  uint64 `json:"alloc"`
	Nanos  int64  `json:"ns"`
	Next   int    `json:"next"`
	Msg    string `json:"msg"`
}

// ---- worker client

type c06Worker struct {
	cmd    *exec.Cmd
	in     io.WriteCloser
	out    *bufio.Reader
	stderr *bytes.Buffer
}

var (
	c06Mu     sync.Mutex
	c06Shared *c06Worker
)

func c06Start() (*c06Worker, error) {
	path := os.Getenv("VERIF_WORKER")
	if path == "" {
		return nil, fmt.Errorf("VERIF_WORKER not set")
	}
	cmd := exec.Command(path)
	cmd.Env = append(os.Environ(), "GOTRACEBACK=single", "GOMAXPROCS=2")
	in, err := cmd.StdinPipe()
	if err != nil {
		return nil, err
	}
	out, err := cmd.StdoutPipe()
	if err != nil {
		return nil, err
	}
	w := &c06Worker{cmd: cmd, in: in, out: bufio.NewReaderSize(out, 1<<16), stderr: &bytes.Buffer{}}
	cmd.Stderr = w.stderr
	if err := cmd.Start(); err != nil {
		return nil, err
	}
	return w, nil
}

func (w *c06Worker) kill() {
	w.in.Close()
	if os.Getenv("GOCOVERDIR") != "" {
		// tools/coverage.sh: let an idle worker leave through main so that its counters are written
		done := make(chan struct{})
		go func() { w.cmd.Wait(); close(done) }()
		select {
		case <-done:
			return
		case <-time.After(2 * time.Second):
		}
	}
	w.cmd.Process.Kill()
	w.cmd.Wait()
}

const c06Timeout = 30 * time.Second

// c06Slow: a record slower than this, twice in a row, is reported.
const c06Slow = 10 * time.Second

// c06Send runs one record. died=true: the worker process ended while running
// it (stderr tail in msg). timedOut=true: no answer within the limit.
func c06Send(w *c06Worker, c C06Case) (rep c06Reply, died, timedOut bool, msg string) {
	var hdr [9]byte
	hdr[0] = byte(c.Kind)
	binary.BigEndian.PutUint32(hdr[1:5], uint32(len(c.Arg)))
	binary.BigEndian.PutUint32(hdr[5:9], uint32(len(c.Input)))
	buf := append(append(hdr[:], c.Arg...), c.Input...)
	if _, err := w.in.Write(buf); err != nil {
		return rep, true, false, "write to worker: " + err.Error()
	}
	type res struct {
		line []byte
		err  error
	}
	ch := make(chan res, 1)
	go func() {
		l, err := w.out.ReadBytes('\n')
		ch <- res{l, err}
	}()
	select {
	case r := <-ch:
		if r.err != nil {
			w.cmd.Wait()
			tail := w.stderr.String()
			if len(tail) > 1500 {
				tail = tail[:1500]
			}
			return rep, true, false, tail
		}
		if err := json.Unmarshal(r.line, &rep); err != nil {
			return rep, true, false, "bad reply: " + string(r.line)
		}
		return rep, false, false, ""
	case <-time.After(c06Timeout):
		return rep, false, true, ""
	}
}

// c06Exec runs c in the shared worker, restarting it as needed; a death or a
// timeout is confirmed by a solo re-run in a fresh worker.
func c06Exec(c C06Case) (rep c06Reply, verdict string) {
	c06Mu.Lock()
	defer c06Mu.Unlock()
	for attempt := 0; attempt < 2; attempt++ {
		if c06Shared == nil {
			w, err := c06Start()
			if err != nil {
				harnessBug("cannot start the C06 worker: %v", err)
			}
			c06Shared = w
		}
		r, died, timedOut, msg := c06Send(c06Shared, c)
		if !died && !timedOut {
			return r, ""
		}
		c06Shared.kill()
		c06Shared = nil
		if attempt == 1 {
			if died {
				return r, "the process died (fatal runtime error): " + firstLine(msg, 400)
			}
			return r, fmt.Sprintf("no answer within %v on a solo re-run (hang)", c06Timeout)
		}
		// first failure: confirm on a solo re-run in a fresh process
	}
	return rep, ""
}

const (
	c06AllocBase   = 1 << 20
	c06AllocFactor = 64
)

func runC06(c C06Case) string {
	rep, verdict := c06Exec(c)
	return judgeC06(c, rep, verdict)
}

// c06ExecBatch runs many records with one round trip per batch. A record during
// which the worker dies or stalls is re-run alone in a fresh process.
func c06ExecBatch(cs []C06Case) ([]c06Reply, []string) {
	reps := make([]c06Reply, len(cs))
	verdicts := make([]string, len(cs))
	i := 0
	for i < len(cs) {
		c06Mu.Lock()
		if c06Shared == nil {
			w, err := c06Start()
			if err != nil {
				c06Mu.Unlock()
				harnessBug("cannot start the C06 worker: %v", err)
			}
			c06Shared = w
		}
		w := c06Shared
		rest := cs[i:]
		go func() {
			var buf bytes.Buffer
			for _, c := range rest {
				var hdr [9]byte
				hdr[0] = byte(c.Kind)
				binary.BigEndian.PutUint32(hdr[1:5], uint32(len(c.Arg)))
				binary.BigEndian.PutUint32(hdr[5:9], uint32(len(c.Input)))
				buf.Write(hdr[:])
				buf.Write(c.Arg)
				buf.Write(c.Input)
			}
			w.in.Write(buf.Bytes())
		}()
		lines := make(chan []byte, 64)
		go func() {
			for range rest {
				l, err := w.out.ReadBytes('\n')
				if err != nil {
					break
				}
				lines <- l
			}
			close(lines)
		}()
		got := 0
		failed := false
	loop:
		for got < len(rest) {
			select {
			case l, ok := <-lines:
				if !ok {
					failed = true
					break loop
				}
				if err := json.Unmarshal(l, &reps[i+got]); err != nil {
					failed = true
					break loop
				}
				got++
			case <-time.After(c06Timeout):
				failed = true
				break loop
			}
		}
		i += got
		if failed {
			c06Shared.kill()
			c06Shared = nil
			c06Mu.Unlock()
			// record i is the suspect: confirm alone
			reps[i], verdicts[i] = c06Exec(cs[i])
			i++
			continue
		}
		c06Mu.Unlock()
	}
	return reps, verdicts
}

// runC06Batch judges a slice of cases run as one batch; returns the first
// failing case and its message.
func runC06Batch(t *testing.T, name string, cs []C06Case) bool {
	reps, verdicts := c06ExecBatch(cs)
	for i := range cs {
		if msg := judgeC06(cs[i], reps[i], verdicts[i]); msg != "" {
			reportViolation("C06", "robust", cs[i], msg)
			t.Errorf("enumerated case fails: %s", msg)
			return false
		}
	}
	Stat("C06").Enum(name, len(cs))
	return true
}

func judgeC06(c C06Case, rep c06Reply, verdict string) string {
	st := Stat("C06")
	nt := len(c.Input) > 2
	st.Eval(nt, model.DigestBytes(fmt.Sprintf("c06-%d-%x", c.Kind, c.Arg), c.Input), "program."+c06Kinds[c.Kind], "src."+c.Src)
	st.Sample(func() string {
		return fmt.Sprintf("program=%s arg=%x src=%s input=%s", c06Kinds[c.Kind], clip(c.Arg, 20), c.Src, showDoc(c.Input))
	})
	desc := func() string {
		return fmt.Sprintf("program=%s arg=%x source=%s input (%d bytes): %s", c06Kinds[c.Kind], clip(c.Arg, 40), c.Src, len(c.Input), showDoc(c.Input))
	}
	if verdict != "" {
		return fmt.Sprintf("%s\n%s", verdict, desc())
	}
	if rep.Status == "panic" {
		return fmt.Sprintf("panic: %s\n%s", firstLine(rep.Msg, 300)+" | "+panicSite(rep.Msg), desc())
	}
	if len(c.Input) > 0 {
		st.Max("max_alloc_bytes_per_input_byte", float64(rep.Alloc)/float64(len(c.Input)+1))
	}
	st.Max("max_alloc_bytes", float64(rep.Alloc))
	st.Max("max_millis", float64(rep.Nanos)/1e6)
	if bound := uint64(c06AllocBase + c06AllocFactor*len(c.Input)); rep.Alloc > bound {
		return fmt.Sprintf("allocated %d bytes while processing %d input bytes (bound %d)\n%s", rep.Alloc, len(c.Input), bound, desc())
	}
	if c.Kind != 1 && rep.Next > len(c.Input)+16 {
		return fmt.Sprintf("%d successful Next/Decode calls on %d input bytes: values are produced without consuming input\n%s", rep.Next, len(c.Input), desc())
	}
	if rep.Nanos > int64(c06Slow) {
		// wall-clock time is only a signal: confirm on a second run (the machine
		// may simply be busy); a slowness that does not reproduce is counted, not reported
		again, v2 := c06Exec(c)
		if v2 == "" && again.Nanos <= int64(c06Slow) {
			st.Discard("slow-once-not-reproduced")
			return ""
		}
		return fmt.Sprintf("one call sequence took %.1fs (and %.1fs on a second run) on %d input bytes\n%s", float64(rep.Nanos)/1e9, float64(again.Nanos)/1e9, len(c.Input), desc())
	}
	return ""
}

// panicSite extracts the first ion-go frame of a stack trace.
func panicSite(stack string) string {
	for _, l := range strings.Split(stack, "\n") {
		if strings.Contains(l, "ion-go/ion.") || strings.Contains(l, "/repo/ion/") || strings.Contains(l, "/ion/") && strings.Contains(l, ".go:") {
			return strings.TrimSpace(l)
		}
	}
	return ""
}

// ---- hostile inputs

// hostileScalars are values placed in every slot of a symbol-table struct.
func hostileSlotValues() []model.Value {
	big1 := bigOf("18446744073709551616")
	out := []model.Value{
		model.NullOf(model.Null), model.NullOf(model.Bool), model.NullOf(model.Int), model.NullOf(model.Float), model.NullOf(model.Decimal),
		model.NullOf(model.Timestamp), model.NullOf(model.Symbol), model.NullOf(model.String), model.NullOf(model.Clob), model.NullOf(model.Blob),
		model.NullOf(model.List), model.NullOf(model.Sexp), model.NullOf(model.Struct),
		model.Int64V(0), model.Int64V(-1), model.Int64V(1), model.Int64V(2147483647), model.Int64V(2147483648), model.Int64V(-2147483649),
		model.Int64V(9223372036854775807), model.IntV(big1), model.IntV(bigOf("-18446744073709551616")),
		model.StrV(""), model.StrV("$ion"), model.StrV("a"), model.StrV("$ion_symbol_table"), model.SymV(model.S("$ion_symbol_table")), model.SymV(model.S("a")), model.SymV(model.Unknown),
		model.BoolV(true), model.FloatV(1.5), model.DecV(bigOf("1"), 0, false), model.BlobV([]byte("x")),
		model.ListV(), model.ListV(model.StrV("s"), model.NullOf(model.String), model.Int64V(1), model.ListV()), model.SexpV(model.StrV("s")),
		model.StructV(), model.StructV(model.Field{Name: model.S("name"), Val: model.StrV("t")}, model.Field{Name: model.S("version"), Val: model.Int64V(1)}, model.Field{Name: model.S("max_id"), Val: model.Int64V(3)}),
	}
	return out
}

// hostileLST draws a $ion_symbol_table struct with hostile values in its slots.
func hostileLST(t *rapid.T) model.Value {
	pool := hostileSlotValues()
	pick := func() model.Value { return pool[gen.Intn(t, len(pool))] }
	imp := func() model.Value {
		var fs []model.Field
		for _, n := range []string{"name", "version", "max_id"} {
			if gen.Chance(t, 85) {
				v := pick()
				if gen.Chance(t, 50) {
					switch n {
					case "name":
						v = model.StrV(gen.Pick(t, []string{"t", "", "$ion", "x"}))
					case "version":
						v = model.Int64V(int64(gen.Pick(t, []int{1, 0, -1, 2, 1 << 31})))
					default:
						v = gen.Pick(t, []model.Value{model.Int64V(3), model.Int64V(0), model.Int64V(-1), model.Int64V(1 << 40), model.IntV(bigOf("99999999999999999999999"))})
					}
				}
				fs = append(fs, model.Field{Name: model.S(n), Val: v})
			}
			if gen.Chance(t, 10) {
				fs = append(fs, model.Field{Name: model.S(n), Val: pick()})
			}
		}
		return model.StructV(fs...)
	}
	var fs []model.Field
	n := gen.Range(t, 0, 4)
	for i := 0; i < n; i++ {
		name := gen.Pick(t, []string{"imports", "symbols", "imports", "symbols", "name", "version", "max_id", "foo", ""})
		var v model.Value
		switch {
		case name == "imports" && gen.Chance(t, 50):
			k := gen.Range(t, 0, 3)
			var es []model.Value
			for j := 0; j < k; j++ {
				if gen.Chance(t, 70) {
					es = append(es, imp())
				} else {
					es = append(es, pick())
				}
			}
			v = model.ListV(es...)
		case name == "symbols" && gen.Chance(t, 50):
			k := gen.Range(t, 0, 4)
			var es []model.Value
			for j := 0; j < k; j++ {
				es = append(es, pick())
			}
			v = model.ListV(es...)
		default:
			v = pick()
		}
		if gen.Chance(t, 10) {
			v.Ann = []model.Sym{model.S(gen.Pick(t, []string{"$ion_symbol_table", "a", "name"}))}
		}
		fs = append(fs, model.Field{Name: model.S(name), Val: v})
	}
	lst := model.StructV(fs...)
	if gen.Chance(t, 5) {
		lst = model.NullOf(model.Struct)
	}
	lst.Ann = []model.Sym{model.S("$ion_symbol_table")}
	if gen.Chance(t, 15) {
		lst.Ann = append(lst.Ann, model.S("a"))
	}
	return lst
}

// c06SystemEncodable rewrites symbols so that every text is a system symbol or
// unknown ($0): such values can be encoded against the system table alone.
var sysTexts = map[string]bool{"$ion": true, "$ion_1_0": true, "$ion_symbol_table": true, "name": true, "version": true, "imports": true, "symbols": true, "max_id": true, "$ion_shared_symbol_table": true}

func systemOnly(v model.Value) model.Value {
	fix := func(s model.Sym) model.Sym {
		if s.Known && !sysTexts[s.Text] {
			return model.Unknown
		}
		return s
	}
	for i := range v.Ann {
		v.Ann[i] = fix(v.Ann[i])
	}
	if v.Kind == model.Symbol && !v.IsNull {
		v.Sym = fix(v.Sym)
	}
	for i := range v.Elems {
		v.Elems[i] = systemOnly(v.Elems[i])
	}
	for i := range v.Fields {
		v.Fields[i].Name = fix(v.Fields[i].Name)
		v.Fields[i].Val = systemOnly(v.Fields[i].Val)
	}
	return v
}

// c06ExtremeTokens are complete binary values with extreme numeric fields.
func c06ExtremeTokens() [][]byte {
	var out [][]byte
	add := func(b ...byte) { out = append(out, b) }
	vu := func(v uint64) []byte { return refbin.VarUInt(nil, v, 0) }
	huge := []uint64{1 << 20, 1<<31 - 1, 1 << 31, 1<<32 + 1, 1 << 40, 1<<62 - 1, 1<<63 - 1, 1<<63 + 5, ^uint64(0)}
	for _, h := range huge {
		for _, tag := range []byte{0x0E, 0x2E, 0x3E, 0x4E, 0x5E, 0x6E, 0x7E, 0x8E, 0x9E, 0xAE, 0xBE, 0xCE, 0xDE, 0xEE} {
			add(append([]byte{tag}, vu(h)...)...)
		}
		add(append([]byte{0xD1}, vu(h)...)...)
		// symbol with a huge ID, annotation with a huge ID, field with a huge ID
		add(append([]byte{0x78}, u64be(h)...)...)
		add(append(append([]byte{0xEE, 0x8C}, append(vu(uint64(len(vu(h)))), vu(h)...)...), 0x20)...)
		add(append(append([]byte{0xDE, 0x8B}, vu(h)...), 0x20)...)
		// decimal with a huge exponent (VarInt) and coefficient 1
		e := refbin.VarInt(nil, int64(h&(1<<62-1)), false, 0)
		add(append(append([]byte{0x5E}, vu(uint64(len(e)+1))...), append(e, 0x01)...)...)
		en := refbin.VarInt(nil, -int64(h&(1<<62-1)), false, 0)
		add(append(append([]byte{0x5E}, vu(uint64(len(en)+1))...), append(en, 0x01)...)...)
		// timestamp: huge year; huge fraction exponent
		y := vu(h)
		add(append(append([]byte{0x6E}, vu(uint64(1+len(y)))...), append([]byte{0x80}, y...)...)...)
		body := append([]byte{0x80, 0x0F, 0xE5, 0x81, 0x81, 0x80, 0x80, 0x80}, append(en, 0x01)...)
		add(append(append([]byte{0x6E}, vu(uint64(len(body)))...), body...)...)
		body = append([]byte{0x80, 0x0F, 0xE5, 0x81, 0x81, 0x80, 0x80, 0x80}, append(e, 0x01)...)
		add(append(append([]byte{0x6E}, vu(uint64(len(body)))...), body...)...)
		// huge offset
		o := refbin.VarInt(nil, int64(h&(1<<62-1)), false, 0)
		add(append(append([]byte{0x6E}, vu(uint64(len(o)+2))...), append(o, 0x0F, 0xE5)...)...)
	}
	// an annotation wrapper whose annot_length exceeds the wrapper, followed by a
	// value whose ten-byte length makes the books balance modulo 2^64
	for _, al := range []int{3, 4, 5, 6, 7, 12} {
		for _, wl := range []int{3, 4, 6} {
			for _, tag := range []byte{0x2E, 0x8E, 0xBE} {
				tok := []byte{0xE0 | byte(wl), 0x80 | byte(al)}
				for i := 0; i < al; i++ {
					tok = append(tok, 0x84)
				}
				tok = append(tok, tag)
				tok = append(tok, vu(^uint64(0)-uint64(al+12-wl)+1)...)
				tok = append(tok, 0x01, 0x02)
				add(tok...)
				// the same with the wrapper closing a four-byte list early
				add(append([]byte{0xB4}, tok...)...)
			}
		}
	}
	// declared lengths in the last few dozen values below 2^64 (and below 2^63):
	// position + length wraps around for some of them and not for others
	for d := uint64(0); d <= 40; d++ {
		for _, h := range []uint64{^uint64(0) - d, 1<<63 - 1 - d, 1<<63 + d} {
			for _, tag := range []byte{0x8E, 0xAE, 0xBE, 0xCE, 0xDE, 0xEE} {
				add(append([]byte{tag}, vu(h)...)...)
				add(append(append([]byte{tag}, vu(h)...), 0x20, 0x20)...)
			}
			add(append(append([]byte{0xD1}, vu(h)...), 0x84, 0x20)...)
		}
	}
	return out
}

// c06Wraps are container openers put in front of an extreme value: small
// declared lengths, and huge ones (so that the inner length passes the
// "fits in the enclosing container" test).
var c06Wraps = [][]byte{nil, {0xBE, 0x90}, {0xDE, 0x90, 0x84}, {0xE7, 0x81, 0x84},
	append([]byte{0xBE}, refbin.VarUInt(nil, 1<<62, 0)...), append(append([]byte{0xDE}, refbin.VarUInt(nil, 1<<62, 0)...), 0x84),
	append(append([]byte{0xEE}, refbin.VarUInt(nil, 1<<62, 0)...), 0x81, 0x84), append(append([]byte{0xD1}, refbin.VarUInt(nil, 1<<45, 0)...), 0x84),
	append(append([]byte{0xCE}, refbin.VarUInt(nil, 1<<50, 0)...), append([]byte{0xBE}, refbin.VarUInt(nil, 1<<49, 0)...)...)}

func u64be(v uint64) []byte {
	var b [8]byte
	binary.BigEndian.PutUint64(b[:], v)
	return b[:]
}

var c06ExtremeTexts = []string{
	"2001-01-01T00:00:00.5", "2001-01-01T00:00:00.5 ", "[2001-01-01T00:00:00.123]", "{a:2001-01-01T00:00.5}", "2001-01-01T00:00:00.", "2001-01-01T00:00:00.5+", "2001-01-01T00:00:00.5-0", "2001-01-01T00:00:00.5+01", "2001-01-01T00:00:00.5+01:", "2001-01-01T",
	"$99999999999999999999", "$2147483648", "$4294967296::1", "{$99999999999:1}", "1d99999999999", "1d-99999999999", "1d2147483647", "1d-2147483648", "1d2147483648",
	"1e99999999", "1e-99999999", "-0e99999999999999999999", "0d99999999999999999999999", "1.0d999999999999999999",
	"9999-12-31T23:59:59.999999999999999999999999999999+23:59", "0001-01-01T00:00:00.0000000000000000000000-23:59", "2000-01-01T00:00:00.99999999999999999999999999Z",
	"[1,2,3,4,5,6,7,8]", "(a b c d e)", "[[1,2,3],[4,5,6]]", "{arr:[1,2,3,4],blob:[1,2,3,4,5,6]}", "[\"a\",\"b\",\"c\"]",
	"$ion_symbol_table::{imports:[{name:\"t\",version:1,max_id:9223372036854775807}]} $10", "$ion_symbol_table::{imports:[{name:\"t\",version:2147483648,max_id:2147483648}]} $100",
	"$ion_symbol_table::{imports:[{name:\"t\",version:1,max_id:99999999}],symbols:[\"a\"]} $100000008 $5",
	"$ion_symbol_table::{imports:$ion_symbol_table,symbols:[\"a\"]} $10 $ion_symbol_table::{imports:$ion_symbol_table,symbols:[\"b\"]} $11 $12",
	"$ion_symbol_table::{symbols:[\"a\"], symbols:[\"b\"]}", "$ion_symbol_table::{imports:[{name:\"t\"}]}", "$ion_symbol_table::null.struct $10",
	"$ion_shared_symbol_table::{name:null.string,version:null.int,symbols:null.list}", "'\\U0010FFFF' \"\\uD800\" \"\\uDC00\\uD800\"",
	"{{ //// }} {{ ==== }} {{ A=== }} {{\"\\xFF\\0\"}}", "\"\\uD83D", "\"\\uD83D\\", "'\\uD800", "'''\\uDBFF\\u", "{\"\\uD83D\\", "a::'\\uD83D", "null.int::1", "a::b::c::", "(((((((((((((((((((((((((((((((((((((((( ", "[[[[[[[[[[[[[[[[[[[[[[[[[[[[[[[[[[[[",
	"0x" + strings.Repeat("f", 3000), "-0b" + strings.Repeat("1", 3000), strings.Repeat("9", 3000), strings.Repeat("9", 2000) + "." + strings.Repeat("9", 2000) + "d-2000",
	strings.Repeat("[", 20000), strings.Repeat("(", 20000) + strings.Repeat(")", 20000), strings.Repeat("{a:", 15000), strings.Repeat("a::", 20000) + "1",
	"'''" + strings.Repeat("a''' '''", 5000) + "'''", "/*" + strings.Repeat("*", 30000), strings.Repeat("/**/", 10000) + "1", "\"" + strings.Repeat("\\u00e9", 5000) + "\"",
}

// c06Input draws a hostile input and names its source class.
func c06Input(t *rapid.T) ([]byte, string) {
	switch gen.Intn(t, 10) {
	case 0, 1: // structured: hostile symbol table + values, text or binary
		vals := []model.Value{hostileLST(t)}
		cfg := &gen.Cfg{MaxDepth: 2, AllowUnknown: true, Size: &gen.Size{}}
		vals = append(vals, gen.Seq(t, cfg, 3)...)
		if gen.Chance(t, 30) {
			vals = append(vals, hostileLST(t), model.SymV(model.Unknown))
		}
		if gen.Chance(t, 50) {
			p := newRawPrinter(gen.RapidChooser{T: t})
			doc := p.Doc(vals)
			if gen.Chance(t, 30) {
				doc = append(doc, []byte(gen.Pick(t, []string{" $10", " $11::$12", " {$13:$10}", " $9 $0 $1"}))...)
			}
			return doc, "hostile-symbol-table.text"
		}
		e := refbin.NewEnc(gen.RapidChooser{T: t})
		b := append([]byte{}, refbin.IVM...)
		tab := refbin.NewSystemTab()
		for _, v := range vals {
			nb, err := e.Value(b, systemOnly(v), tab)
			if err != nil {
				continue
			}
			b = nb
		}
		if gen.Chance(t, 40) {
			b = append(b, 0x71, byte(gen.Range(t, 0, 20)))
		}
		return b, "hostile-symbol-table.binary"
	case 2: // extreme numeric fields, binary
		toks := c06ExtremeTokens()
		b := append([]byte{}, refbin.IVM...)
		n := gen.Range(t, 1, 3)
		for i := 0; i < n; i++ {
			if gen.Chance(t, 40) {
				b = append(b, gen.Pick(t, c06Wraps)...) // open a container around what follows
			}
			b = append(b, gen.Pick(t, toks)...)
			if gen.Chance(t, 50) {
				b = append(b, 0x21, 0x01)
			}
		}
		return b, "extreme-fields.binary"
	case 3: // extreme text
		s := gen.Pick(t, c06ExtremeTexts)
		if gen.Chance(t, 30) {
			s = gen.Pick(t, []string{"[", "(", "{a:", "a::", "$ion_symbol_table::{symbols:["}) + s
		}
		if gen.Chance(t, 30) {
			s += gen.Pick(t, []string{" 1", "]", ")", "}", "::", ",", " $10"})
		}
		return []byte(s), "extreme-fields.text"
	case 4, 5, 6: // byte-level edits of valid documents (the C07 catalogue, sampled)
		c := genC07(t)
		return c.Doc, "edited-document." + c.Op
	case 7: // random splice of two documents
		a, b := c07Base(t, 2000), c07Base(t, 2000)
		i, j := gen.Intn(t, len(a)+1), gen.Intn(t, len(b)+1)
		return append(append([]byte{}, a[:i]...), b[j:]...), "splice"
	case 8: // random bytes, sometimes behind a version marker
		n := gen.Range(t, 0, 40)
		b := rapid.SliceOfN(rapid.Byte(), n, n).Draw(t, "bytes")
		if gen.Chance(t, 60) {
			b = append(append([]byte{}, refbin.IVM...), b...)
		}
		return b, "random-bytes"
	default: // valid documents (calibrates the allocation bound)
		return c19Doc(t, false), "valid-document"
	}
}

func genC06(t *rapid.T) C06Case {
	in, src := c06Input(t)
	c := C06Case{Input: in, Src: src, Kind: gen.Intn(t, 6)}
	switch c.Kind {
	case 1:
		n := gen.Range(t, 1, 60)
		c.Arg = rapid.SliceOfN(rapid.Byte(), n, n).Draw(t, "prog")
	case 3, 4:
		c.Arg = []byte{byte(gen.Intn(t, 35))}
	}
	return c
}

func TestC06(t *testing.T) {
	p := Prop[C06Case]{ID: "C06", Sub: "robust", Gen: genC06, Run: runC06, Quick: 6000, Thorough: 150000}
	defer func() {
		c06Mu.Lock()
		if c06Shared != nil {
			c06Shared.kill()
			c06Shared = nil
		}
		c06Mu.Unlock()
	}()
	if os.Getenv("VERIF_REPLAY") == "" {
		shard, nshards := Shard()
		// every byte string of length <= 2, bare and behind a version marker
		t.Run("robust/all-short-inputs", func(t *testing.T) {
			var batch []C06Case
			flush := func() bool {
				ok := runC06Batch(t, "all-short-inputs", batch)
				batch = batch[:0]
				return ok
			}
			idx := 0
			emit := func(b []byte) bool {
				idx++
				if idx%nshards != shard {
					return true
				}
				for _, k := range []int{0, 2} {
					batch = append(batch, C06Case{Kind: k, Input: append([]byte{}, b...), Src: "short"},
						C06Case{Kind: k, Input: append(append([]byte{}, refbin.IVM...), b...), Src: "short.ivm"})
				}
				if len(batch) >= 2048 {
					return flush()
				}
				return true
			}
			if !emit(nil) {
				return
			}
			for a := 0; a < 256; a++ {
				if !emit([]byte{byte(a)}) {
					return
				}
				for b := 0; b < 256; b++ {
					if !emit([]byte{byte(a), byte(b)}) {
						return
					}
				}
			}
			flush()
		})
		// every extreme token / text under every program kind
		t.Run("robust/extreme-fields", func(t *testing.T) {
			var batch []C06Case
			idx := 0
			for _, tok := range c06ExtremeTokens() {
				for _, wrap := range c06Wraps {
					idx++
					if idx%nshards != shard {
						continue
					}
					in := append(append(append([]byte{}, refbin.IVM...), wrap...), tok...)
					for k := 0; k < 6; k++ {
						c := C06Case{Kind: k, Input: in, Src: "extreme-fields.binary"}
						if k == 1 {
							c.Arg = []byte{0, 21, 5, 0, 21, 0, 7, 0, 21}
						}
						if k == 3 || k == 4 {
							c.Arg = []byte{17}
						}
						batch = append(batch, c)
					}
				}
			}
			for _, s := range c06ExtremeTexts {
				idx++
				if idx%nshards != shard {
					continue
				}
				for k := 0; k < 6; k++ {
					for _, tg := range []byte{17, 8, 1, 22, 11, 13, 32, 33, 34} {
						c := C06Case{Kind: k, Input: []byte(s), Src: "extreme-fields.text"}
						if k == 1 {
							c.Arg = []byte{0, 21, 5, 0, 21, 0, 7, 0, 21}
						}
						if k == 3 || k == 4 {
							c.Arg = []byte{tg}
						} else if tg != 17 {
							continue
						}
						batch = append(batch, c)
					}
				}
			}
			runC06Batch(t, "extreme-fields", batch)
		})
	}
	RunProp(t, p)
}

func init() {
	Describe("C06",
		"cases: (program, input) with input from: symbol-table structs with hostile values (typed nulls of every type, huge / negative ints, wrong types, duplicates, annotations) in every slot incl. import structs, in text and binary; complete binary values with extreme lengths / IDs / exponents / years / offsets (2^20 .. 2^64-1, every declared length within 40 of 2^63 and of 2^64), optionally inside containers; extreme text (huge $n, exponents, 3000-digit numbers, 20000-deep nesting, 30 KB comments); the C07 edit catalogue sampled on valid documents; splices; random bytes; valid documents (calibration). Program: full traversal with every accessor, a random navigation program of 1-60 calls issued regardless of state (after errors, at end of stream, wrong type), Decoder.Decode until error, Unmarshal into one of 32 target types, Decoder.DecodeTo repeatedly. Enumerated: every byte string of length <= 2, bare and behind a version marker (131 586 inputs x 2 programs), every extreme token x 4 wrappers x 5 programs. Non-trivial: input longer than 2 bytes. Distinct by digest(program, argument, input).",
		"oracle (validity, observed from outside): the input runs in an isolated worker process (RLIMIT_AS 3 GiB) that reports recovered panics, bytes allocated (runtime.MemStats.TotalAlloc delta), elapsed time and the number of successful Next / Decode calls; a worker death or a missing answer within 30 s is attributed to the record in flight and confirmed by a solo re-run in a fresh process. Violations: panic; process death; allocation > 1 MiB + 64 x len(input); more than len(input)+16 values produced by a traversal / decode loop; > 10 s for one record, twice in a row",
		"inputs <= 64 KiB; nesting depth bounded by input size; a timeout that does not reproduce on the solo re-run is ignored (counted as a retry), not reported",
	)
}

// newRawPrinter is the reference printer without the parse-back self-check
// (its output here is deliberately not a well-formed symbol-table stream).
func newRawPrinter(c reftext.Chooser) *reftext.Printer {
	p := reftext.NewPrinter(c)
	p.Off["lst.declared"] = true
	p.Off["symbol.sid-spelling"] = true
	return p
}
