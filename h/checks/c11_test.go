package checks

import (
	"bytes"
	"fmt"
	"sort"
	"testing"

	"github.com/amzn/ion-go/ion"
	"pgregory.net/rapid"

	"verif/h/drive"
	"verif/h/gen"
	"verif/h/model"
	"verif/h/refbin"
)

// C11 — binary writers with shared or fixed tables emit resolvable, minimal symbols.

type C11Case struct {
	Entry  int           `json:"entry"` // 0 NewBinaryWriter(ssts), 1 NewBinaryWriterLST, 2 MarshalBinary(ssts), 3 MarshalBinaryLST
	SSTs   []SharedJ     `json:"ssts"`
	Locals []string      `json:"locals,omitempty"` // fixed table: its local symbols
	Vals   []model.Value `json:"vals"`
	Picks  []int         `json:"picks,omitempty"`
	// FinishAfter: for the Writer entry points, Finish is also called after the
	// values with these indexes (several datagrams from one writer).
	FinishAfter []int `json:"finish_after,omitempty"`
	// ForeignSIDs: every token handed to the writer carries, next to its text, a
	// symbol ID from an unrelated table (as tokens obtained from a Reader do)
	ForeignSIDs bool `json:"foreign_sids,omitempty"`
}

var c11Entries = []string{"NewBinaryWriter(ssts)", "NewBinaryWriterLST", "MarshalBinary(ssts)", "MarshalBinaryLST"}

// c11Sym marshals as a symbol value.
type c11Sym struct {
	S string `ion:"s,symbol"`
}

// c11Go converts a model value (ints, symbols, lists, structs only) into a Go
// value for Marshal, and returns the model of what Marshal is documented to
// produce for it.
func c11Go(v model.Value) (interface{}, model.Value) {
	switch v.Kind {
	case model.Symbol:
		return c11Sym{S: v.Sym.Text}, model.StructV(model.Field{Name: model.S("s"), Val: model.SymV(v.Sym)})
	case model.List:
		out := []interface{}{}
		var es []model.Value
		for _, e := range v.Elems {
			g, m := c11Go(e)
			out = append(out, g)
			es = append(es, m)
		}
		return out, model.ListV(es...)
	case model.Struct:
		out := map[string]interface{}{}
		var fs []model.Field
		seen := map[string]bool{}
		for _, f := range v.Fields {
			if seen[f.Name.Text] {
				continue
			}
			seen[f.Name.Text] = true
			g, m := c11Go(f.Val)
			out[f.Name.Text] = g
			fs = append(fs, model.Field{Name: f.Name, Val: m})
		}
		return out, model.StructV(fs...)
	}
	return v.Int.Int64(), v
}

func sortedDeep(v model.Value) model.Value {
	v = model.SortedFieldsCopy(v)
	for i := range v.Elems {
		v.Elems[i] = sortedDeep(v.Elems[i])
	}
	for i := range v.Fields {
		v.Fields[i].Val = sortedDeep(v.Fields[i].Val)
	}
	return v
}

// c11Table is the reference ID space of imports + locals.
func c11Table(c C11Case) *refbin.SymTab {
	var imps []refbin.Import
	for _, s := range c.SSTs {
		imps = append(imps, refbin.Import{Name: s.Name, Version: s.Version, MaxID: len(s.slots())})
	}
	var locals []refbin.Slot
	for _, l := range c.Locals {
		locals = append(locals, refbin.K(l))
	}
	t, err := refbin.BuildLocal(imps, locals, refCatalog(c.SSTs))
	if err != nil {
		harnessBug("C11: %v", err)
	}
	return t
}

// symbolTexts lists the texts of a value's symbol tokens (field name,
// annotations, symbol value), shallow.
func tokensOf(v model.Value, name *model.Sym) []model.Sym {
	var out []model.Sym
	if name != nil {
		out = append(out, *name)
	}
	out = append(out, v.Ann...)
	if v.Kind == model.Symbol && !v.IsNull {
		out = append(out, v.Sym)
	}
	return out
}

func runC11(c C11Case) string {
	if c.ForeignSIDs {
		drive.ForeignSID = func(text string) int64 { return int64(1 + model.DigestBytes("sid", []byte(text))%24) }
		defer func() { drive.ForeignSID = nil }()
	}
	st := Stat("C11")
	fixed := c.Entry == 1 || c.Entry == 3
	tab := c11Table(c)
	inTable := func(s model.Sym) bool { return !s.Known || tab.Lowest(s.Text) > 0 }
	// classify
	nIn, nOut := 0, 0
	for _, v := range c.Vals {
		var walk func(x model.Value, name *model.Sym)
		walk = func(x model.Value, name *model.Sym) {
			for _, tk := range tokensOf(x, name) {
				if !tk.Known {
					continue
				}
				if tab.Lowest(tk.Text) > 0 && tab.Lowest(tk.Text) <= tab.MaxID()-len(c.Locals) {
					nIn++
				} else {
					nOut++
				}
			}
			for _, e := range x.Elems {
				walk(e, nil)
			}
			for i := range x.Fields {
				walk(x.Fields[i].Val, &x.Fields[i].Name)
			}
		}
		walk(v, nil)
	}
	st.Eval(nIn > 0 && nOut > 0, model.Digest(c.Vals)^model.DigestBytes(fmt.Sprintf("c11 %d %v %v", c.Entry, c.SSTs, c.Locals), nil),
		"entry."+c11Entries[c.Entry], map[bool]string{true: "has-shared-tables"}[len(c.SSTs) > 0])
	st.Sample(func() string {
		return fmt.Sprintf("entry=%s ssts=%+v locals=%q vals=%s", c11Entries[c.Entry], c.SSTs, c.Locals, model.SeqString(c.Vals))
	})
	desc := func(out []byte) string {
		return fmt.Sprintf("\nentry=%s ssts=%+v fixed-locals=%q\nvalues: %s\noutput: % x", c11Entries[c.Entry], c.SSTs, c.Locals, model.SeqString(c.Vals), clip(out, 400))
	}
	// the reading side holds the shared tables as published (natural size); an
	// Adjust-ed max_id reaches it only through the declared import
	natural := append([]SharedJ{}, c.SSTs...)
	for i := range natural {
		natural[i].MaxID = -1
	}
	cat := refCatalog(natural)

	var out []byte
	want := c.Vals
	var callErrs []error
	var calls []CallJ
	perr := drive.Guard2(func() string {
		var buf bytes.Buffer
		switch c.Entry {
		case 0, 1:
			var w ion.Writer
			if c.Entry == 0 {
				w = ion.NewBinaryWriter(&buf, ionSSTs(c.SSTs)...)
			} else {
				w = ion.NewBinaryWriterLST(&buf, localTable(ionSSTs(c.SSTs), c.Locals))
			}
			p := pickerOf(c.Picks)
			fin := map[int]bool{}
			for _, i := range c.FinishAfter {
				fin[i] = true
			}
			for i := range c.Vals {
				calls = append(calls, flattenCalls(c.Vals[i:i+1], func(n int) int { return p(n) })...)
				if fin[i] && i < len(c.Vals)-1 {
					calls = append(calls, CallJ{Op: "finish"})
				}
			}
			calls = append(calls, CallJ{Op: "finish"})
			for _, call := range calls {
				callErrs = append(callErrs, doCall(w, call))
			}
			out = buf.Bytes()
		default:
			// one top-level value per Marshal call; outputs are concatenated streams
			var all []byte
			want = nil
			for _, v := range c.Vals {
				g, m := c11Go(v)
				var b []byte
				var err error
				if c.Entry == 2 {
					b, err = ion.MarshalBinary(g, ionSSTs(c.SSTs)...)
				} else {
					b, err = ion.MarshalBinaryLST(g, localTable(ionSSTs(c.SSTs), c.Locals))
				}
				callErrs = append(callErrs, err)
				if err == nil {
					all = append(all, b...)
					want = append(want, m)
				}
			}
			out = all
		}
		return ""
	})
	if perr != "" {
		return "panic: " + firstLine(perr, 300) + desc(out)
	}

	// ---- which calls must fail (fixed table, text outside it)
	if c.Entry <= 1 {
		firstBad := -1
		if fixed {
			// pending tokens are judged when the value / container call consumes them
			var pend []model.Sym
			for i, call := range calls {
				switch call.Op {
				case "fieldname", "annotation", "annotations":
					pend = append(pend, call.Syms...)
				case "value":
					pend = append(pend, tokensOf(*call.Val, nil)...)
					fallthrough
				case "begin:list", "begin:sexp", "begin:struct":
					for _, tk := range pend {
						if !inTable(tk) && firstBad < 0 {
							firstBad = i
						}
					}
					pend = nil
				}
			}
		}
		for i, e := range callErrs {
			switch {
			case firstBad >= 0 && i >= firstBad && e == nil:
				return fmt.Sprintf("call %d (%s) used text outside the fixed table at or before call %d but returned nil (every call from the first failure on must fail)\ncalls:%s", i, calls[i], firstBad, describeCalls(C12Case{Calls: calls}, callErrs)) + desc(out)
			case (firstBad < 0 || i < firstBad) && e != nil:
				return fmt.Sprintf("call %d (%s) failed although every text so far is in the table: %v\ncalls:%s", i, calls[i], e, describeCalls(C12Case{Calls: calls}, callErrs)) + desc(out)
			}
		}
		if firstBad >= 0 {
			// the bytes emitted so far are the completed top-level values before
			// the failing one; they must decode with every ID inside the table
			res, err := refbin.Decode(out, refbin.Options{Catalog: cat})
			if err != nil {
				return fmt.Sprintf("after the refused call the emitted bytes are not a valid stream: %v", err) + desc(out)
			}
			// completed top-level values = those whose calls all precede firstBad
			depth, done := 0, 0
			for i, call := range calls[:firstBad] {
				_ = i
				switch {
				case len(call.Op) > 6 && call.Op[:6] == "begin:":
					depth++
				case len(call.Op) > 4 && call.Op[:4] == "end:":
					depth--
					if depth == 0 {
						done++
					}
				case call.Op == "value" && depth == 0:
					done++
				}
			}
			if d := model.DiffSeq(c.Vals[:done], res.Values); d != "" {
				return "values emitted before the refused call differ: " + d + desc(out)
			}
			st.Class("fixed-table-refusal")
			return ""
		}
	} else {
		for i, e := range callErrs {
			_, v := c11Go(c.Vals[i]) // what was actually marshalled (duplicate map keys collapse)
			bad := false
			v.Walk(func(x model.Value) {
				for _, tk := range tokensOf(x, nil) {
					if !inTable(tk) {
						bad = true
					}
				}
				for _, f := range x.Fields {
					if !inTable(f.Name) {
						bad = true
					}
				}
			})
			if fixed && bad && e == nil {
				return fmt.Sprintf("MarshalBinaryLST of value %d used text outside the fixed table but returned nil", i) + desc(out)
			}
			if !(fixed && bad) && e != nil {
				return fmt.Sprintf("Marshal of value %d failed: %v", i, e) + desc(out)
			}
		}
	}

	// ---- the stream: with the catalog every text is recovered
	res, err := refbin.Decode(out, refbin.Options{Catalog: cat, RequireIVM: true})
	if err != nil {
		return fmt.Sprintf("output is not valid Ion binary under the reference decoder holding the same tables: %v", err) + desc(out)
	}
	a, b := want, res.Values
	if c.Entry >= 2 {
		a, b = nil, nil
		for _, v := range want {
			a = append(a, sortedDeep(v))
		}
		for _, v := range res.Values {
			b = append(b, sortedDeep(v))
		}
	}
	if d := model.DiffSeq(a, b); d != "" {
		return "reference decoder (with the catalog) recovers different values: " + d + desc(out)
	}
	got, gerr := drive.Observe(ion.NewReaderCat(bytes.NewReader(out), ionCatalog(natural)))
	if gerr != nil {
		return fmt.Sprintf("ion-go's reader holding the same tables fails on the output: %v", gerr) + desc(out)
	}
	if c.Entry >= 2 {
		for i := range got {
			got[i] = sortedDeep(got[i])
		}
	}
	if d := model.DiffSeq(a, got); d != "" {
		return "ion-go's reader holding the same tables recovers different values: " + d + desc(out)
	}
	// without the catalog the stream must still be structurally valid (declared
	// max_ids make the placeholder slots)
	if _, err := refbin.Decode(out, refbin.Options{RequireIVM: true}); err != nil {
		return fmt.Sprintf("without the catalog the output does not decode (imports must carry max_id): %v", err) + desc(out)
	}

	// ---- declared imports and minimality, per symbol table struct in the output
	wantImps := tab.Imports
	for di, d := range res.Decls {
		if d.Append {
			return "output uses an appending symbol table" + desc(out)
		}
		if len(d.Imports) != len(wantImps) {
			return fmt.Sprintf("symbol table %d declares %d imports, the writer was given %d", di, len(d.Imports), len(wantImps)) + desc(out)
		}
		for i, imp := range d.Imports {
			if imp != wantImps[i] {
				return fmt.Sprintf("symbol table %d, import %d is %+v, the writer was given %+v", di, i, imp, wantImps[i]) + desc(out)
			}
		}
		base, _ := refbin.BuildLocal(wantImps, nil, cat)
		seen := map[string]bool{}
		for _, s := range d.Symbols {
			if !s.Known {
				return fmt.Sprintf("symbol table %d defines a local slot without text", di) + desc(out)
			}
			if fixed {
				continue // a fixed table is written as given
			}
			if s.Text != "" && base.Lowest(s.Text) > 0 {
				return fmt.Sprintf("symbol table %d defines %q locally although the system table or an import already has it (ID %d)", di, s.Text, base.Lowest(s.Text)) + desc(out)
			}
			if seen[s.Text] {
				return fmt.Sprintf("symbol table %d defines %q locally twice", di, s.Text) + desc(out)
			}
			seen[s.Text] = true
		}
		if fixed {
			var texts []string
			for _, s := range d.Symbols {
				texts = append(texts, s.Text)
			}
			if fmt.Sprint(texts) != fmt.Sprint(c.Locals) && !(len(texts) == 0 && len(c.Locals) == 0) {
				return fmt.Sprintf("the fixed table's local symbols were written as %q, given %q", texts, c.Locals) + desc(out)
			}
		}
	}
	if len(wantImps) > 0 && len(res.Decls) == 0 && len(res.Values) > 0 {
		return "the writer was given shared tables but the output declares no imports" + desc(out)
	}
	// every use of a text takes the lowest ID carrying it in the table in force
	for _, u := range res.Uses {
		if !u.User || !u.Text.Known || u.Text.Text == "" {
			continue
		}
		low := res.Tables[u.Table].Lowest(u.Text.Text)
		if int(u.SID) != low {
			return fmt.Sprintf("%s %q is written with ID %d although the table in force maps it to the lower ID %d", u.Where, u.Text.Text, u.SID, low) + desc(out)
		}
	}
	// locals that are never used are not minimal either (growing tables only)
	if !fixed {
		used := map[string]bool{}
		for _, u := range res.Uses {
			if u.Text.Known {
				used[u.Text.Text] = true
			}
		}
		for _, d := range res.Decls[max(0, len(res.Decls)-1):] {
			for _, s := range d.Symbols {
				if s.Known && !used[s.Text] {
					return fmt.Sprintf("local symbol %q is defined but never used", s.Text) + desc(out)
				}
			}
		}
	}
	return ""
}

var c11Texts = []string{"a", "b", "abc", "name", "version", "x", "y", "$ion", "null", "+", "é", "a b", "sym1", "sym2", "f", "g", "s", "imports", "zz", "q", "$11", "$40", "$99"}

func c11Value(t *rapid.T, depth int, marshal bool, texts []string) model.Value {
	sym := func() model.Sym {
		if !marshal && gen.Chance(t, 5) {
			return model.Unknown
		}
		return model.S(gen.Pick(t, texts))
	}
	var v model.Value
	switch k := gen.Intn(t, 8); {
	case k < 4 || depth >= 2:
		s := sym()
		for marshal && drive.DollarDigits(s.Text) {
			// a symbol-tagged string goes through WriteSymbolFromString, which
			// documents $<digits> as an ID; as field name / annotation it is text
			s = sym()
		}
		v = model.SymV(s)
	case k == 4:
		v = model.Int64V(int64(gen.Range(t, 0, 9)))
	case k == 5:
		v = model.ListV(c11Value(t, depth+1, marshal, texts), c11Value(t, depth+1, marshal, texts))
	default:
		n := gen.Range(t, 1, 3)
		var fs []model.Field
		for i := 0; i < n; i++ {
			fs = append(fs, model.Field{Name: sym(), Val: c11Value(t, depth+1, marshal, texts)})
		}
		v = model.StructV(fs...)
	}
	if !marshal && gen.Chance(t, 30) {
		v.Ann = []model.Sym{sym()}
		if gen.Chance(t, 30) {
			v.Ann = append(v.Ann, sym())
		}
	}
	return v
}

func genC11(t *rapid.T) C11Case {
	c := C11Case{Entry: gen.Intn(t, 4), Picks: genPicks(t)}
	c.SSTs = genSSTs(t, 3)
	for i := range c.SSTs {
		// no gaps here: the by-name side of "" is exempt anyway (DESIGN C09/C11)
		for j, s := range c.SSTs[i].Symbols {
			if s == "" || drive.DollarDigits(s) {
				c.SSTs[i].Symbols[j] = gen.Pick(t, c11Texts)
			}
		}
	}
	marshal := c.Entry >= 2
	// symbol texts: half from inside the tables, half from the general pool
	var inside []string
	for _, s := range c.SSTs {
		inside = append(inside, s.Symbols...)
	}
	if gen.Chance(t, 10) {
		// a large table: the symbols whose IDs land around 128 and 256 (where the
		// encodings of IDs change length) are the ones drawn
		off := 9
		for _, s := range c.SSTs {
			if s.MaxID >= 0 {
				off += s.MaxID
			} else {
				off += len(s.Symbols)
			}
		}
		big := SharedJ{Name: "big", Version: 1, MaxID: -1}
		for i := 0; i < 300; i++ {
			big.Symbols = append(big.Symbols, fmt.Sprintf("big_%d", i))
		}
		c.SSTs = append(c.SSTs, big)
		inside = nil
		for _, id := range []int{126, 127, 128, 129, 254, 255, 256, 257, 258} {
			if k := id - off - 1; k >= 0 && k < 300 {
				inside = append(inside, big.Symbols[k])
			}
		}
	}
	inside = append(inside, "name", "version", "imports")
	texts := append([]string{}, inside...)
	texts = append(texts, c11Texts...)
	n := gen.Range(t, 1, 5)
	for i := 0; i < n; i++ {
		v := c11Value(t, 0, marshal, texts)
		if marshal && v.Kind != model.Struct && v.Kind != model.List {
			v = model.ListV(v)
		}
		c.Vals = append(c.Vals, v)
	}
	c.Vals = gen.SanitizeTop(c.Vals)
	c.ForeignSIDs = !marshal && gen.Chance(t, 25)
	if !marshal && gen.Chance(t, 40) {
		for i := range c.Vals {
			if gen.Chance(t, 40) {
				c.FinishAfter = append(c.FinishAfter, i)
			}
		}
	}
	if c.Entry == 0 && gen.Chance(t, 25) {
		// the empty symbol text, followed by text that is new to the table
		c.Vals = append(c.Vals, model.ListV(model.SymV(model.S("")), model.SymV(model.S(gen.Pick(t, []string{"afterEmpty", "zz2", "q9"})))))
	}
	if marshal {
		for i := range c.Vals {
			c.Vals[i].Ann = nil
		}
	}
	if c.Entry == 1 || c.Entry == 3 {
		// fixed table: locals = the texts the values use that no import has, minus
		// (35% of cases) a few, so that some text falls outside the table
		need := refbin.CollectSymbols(c.Vals)
		if marshal {
			need = append(need, "s")
		}
		sort.Strings(need)
		base, _ := refbin.BuildLocal(c11Table(C11Case{SSTs: c.SSTs}).Imports, nil, refCatalog(c.SSTs))
		drop := gen.Chance(t, 35)
		seen := map[string]bool{}
		for _, s := range need {
			if seen[s] {
				continue
			}
			seen[s] = true
			if base.Lowest(s) > 0 && gen.Chance(t, 70) {
				continue
			}
			if drop && gen.Chance(t, 40) {
				continue
			}
			c.Locals = append(c.Locals, s)
		}
		if gen.Chance(t, 20) {
			c.Locals = append(c.Locals, "unused")
		}
	}
	return c
}

func TestC11(t *testing.T) {
	p := Prop[C11Case]{ID: "C11", Sub: "tables", Gen: genC11, Run: runC11, Quick: 12000, Thorough: 250000}
	RunProp(t, p)
}

func init() {
	Describe("C11",
		"cases: (entry point in {NewBinaryWriter(ssts...), NewBinaryWriterLST, MarshalBinary(v, ssts...), MarshalBinaryLST}, 0-3 shared tables with overlapping text / text equal to system symbols / Adjust-ed max_id above and below the table size, a fixed table's local symbols, 1-5 values whose symbol values, field names and annotations are drawn half from inside the tables and half from outside). For fixed tables 35% of cases leave some needed text out of the table. Non-trivial: at least one symbol resolved through an import or the system table and at least one outside. Distinct by digest(entry, tables, values).",
		"oracle: reference decoder: (1) with the same tables as catalog, and ion-go's own reader with them, every value and text is recovered; (2) without any catalog the stream still decodes (imports carry max_id); (3) each symbol table struct declares exactly the given imports (name, version, max_id) in order; (4) growing tables: no local symbol duplicates text the system table or an import has, none is defined twice, none is unused; fixed tables: locals written as given; (5) every use of a text takes the lowest ID the table in force maps it to; (6) fixed table and text outside it: the consuming write call fails, every later call fails, earlier calls succeed, and the bytes emitted hold exactly the completed values before it",
		"the empty text is exempt from (4) and (5) because ion-go never indexes it by name (DESIGN C09); $<digits>-shaped text is used for field names, annotations and WriteSymbol tokens but never sent through WriteSymbolFromString (which documents it as an ID)",
	)
}
