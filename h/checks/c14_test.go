package checks

import (
	"fmt"
	"math"
	"math/big"
	"regexp"
	"strings"
	"testing"

	"github.com/amzn/ion-go/ion"
	"pgregory.net/rapid"

	"verif/h/gen"
	"verif/h/model"
)

// C14 — decimal arithmetic is exact and decimal text round-trips.

type DecJ struct {
	Coef    string `json:"coef"`
	Exp     int64  `json:"exp"`
	NegZero bool   `json:"negzero,omitempty"`
}

func decJ(d model.Dec) DecJ { return DecJ{d.Coef.String(), d.Exp, d.NegZero} }

func (d DecJ) big() *big.Int {
	b, _ := new(big.Int).SetString(d.Coef, 10)
	if b == nil {
		b = new(big.Int)
	}
	return b
}

func (d DecJ) ion() *ion.Decimal { return ion.NewDecimal(d.big(), int32(d.Exp), d.NegZero) }

type C14Case struct {
	Op string `json:"op"`
	A  DecJ   `json:"a"`
	B  DecJ   `json:"b"`
	N  int    `json:"n"`
}

var c14Ops = []string{"add", "sub", "mul", "neg", "abs", "shl", "shr", "cmp", "equal", "sign", "trunc", "text"}

var pow10cache = map[int64]*big.Int{}

func pow10(k int64) *big.Int {
	if k < 0 {
		panic("negative pow10")
	}
	if p, ok := pow10cache[k]; ok && k < 512 {
		return p
	}
	p := new(big.Int).Exp(big.NewInt(10), big.NewInt(k), nil)
	if k < 512 {
		pow10cache[k] = p
	}
	return p
}

// scaled returns coef*10^(exp-m) for m <= exp.
func scaled(coef *big.Int, exp, m int64) *big.Int {
	return new(big.Int).Mul(coef, pow10(exp-m))
}

func min64(xs ...int64) int64 {
	m := xs[0]
	for _, x := range xs[1:] {
		if x < m {
			m = x
		}
	}
	return m
}

// ionDecimalLiteral is the Ion 1.0 decimal literal grammar (a decimal needs a
// '.' or an exponent marker; no leading zeros; no leading '+').
var ionDecimalLiteral = regexp.MustCompile(`^-?(0|[1-9][0-9]*)(\.[0-9]*([dD][+-]?[0-9]+)?|[dD][+-]?[0-9]+)$`)

func digitsOf(b *big.Int) int { return len(new(big.Int).Abs(b).String()) }

func runC14(c C14Case) string {
	st := Stat("C14")
	a, b := c.A.ion(), c.B.ion()
	ac, bc := c.A.big(), c.B.big()
	ae, be := c.A.Exp, c.B.Exp
	nt := ae != be || ac.BitLen() > 63 || bc.BitLen() > 63
	cls := "op." + c.Op

	valueEq := func(got *ion.Decimal, wantCoef *big.Int, wantExp int64) string {
		gc, ge := got.CoEx()
		m := min64(int64(ge), wantExp)
		if int64(ge)-m > 20000 || wantExp-m > 20000 {
			return fmt.Sprintf("result exponent %d too far from expected %d", ge, wantExp)
		}
		if scaled(gc, int64(ge), m).Cmp(scaled(wantCoef, wantExp, m)) != 0 {
			return fmt.Sprintf("%s: got %vd%d, want value %vd%d", c.Op, gc, ge, wantCoef, wantExp)
		}
		// the result is a decimal like any other: its sign and its text are those
		// of the value CoEx reports (a result that carries state over from an
		// operand -- a negative-zero flag, say -- prints as something else)
		if got.Sign() != wantCoef.Sign() {
			return fmt.Sprintf("%s: result %vd%d has Sign() = %d", c.Op, gc, ge, got.Sign())
		}
		s := got.String()
		if !ionDecimalLiteral.MatchString(s) {
			return fmt.Sprintf("%s: result %vd%d prints as %q, not an Ion decimal literal", c.Op, gc, ge, s)
		}
		p, err := ion.ParseDecimal(s)
		if err != nil {
			return fmt.Sprintf("%s: result %vd%d prints as %q: ParseDecimal: %v", c.Op, gc, ge, s, err)
		}
		if pc, pe := p.CoEx(); pc.Cmp(gc) != 0 || pe != ge {
			return fmt.Sprintf("%s: result %vd%d prints as %q, which parses as %vd%d", c.Op, gc, ge, s, pc, pe)
		}
		return ""
	}
	var msg string
	switch c.Op {
	case "add", "sub":
		m := min64(ae, be)
		x, y := scaled(ac, ae, m), scaled(bc, be, m)
		var want *big.Int
		var got *ion.Decimal
		if c.Op == "add" {
			want, got = new(big.Int).Add(x, y), a.Add(b)
		} else {
			want, got = new(big.Int).Sub(x, y), a.Sub(b)
		}
		msg = valueEq(got, want, m)
	case "mul":
		if r := ae + be; r > math.MaxInt32 || r < -math.MaxInt32 {
			refused := false
			var got *ion.Decimal
			func() {
				defer func() {
					if recover() != nil {
						refused = true
					}
				}()
				got = a.Mul(b)
			}()
			if !refused {
				gc, ge := got.CoEx()
				msg = fmt.Sprintf("mul of %vd%d and %vd%d: the exponent %d is out of range, yet the call returned %vd%d", ac, ae, bc, be, r, gc, ge)
			}
			cls += ".out-of-range"
			break
		}
		msg = valueEq(a.Mul(b), new(big.Int).Mul(ac, bc), ae+be)
	case "neg":
		msg = valueEq(a.Neg(), new(big.Int).Neg(ac), ae)
	case "abs":
		msg = valueEq(a.Abs(), new(big.Int).Abs(ac), ae)
	case "shl", "shr":
		r := ae + int64(c.N)
		if c.Op == "shr" {
			r = ae - int64(c.N)
		}
		if r > math.MaxInt32 || r < -math.MaxInt32 {
			// the result has no representation (ion-go's exponents span -(2^31-1) .. 2^31-1): the call must refuse (it panics with
			// "exponent out of bounds"), never hand back some other number
			var got *ion.Decimal
			refused := false
			func() {
				defer func() {
					if recover() != nil {
						refused = true
					}
				}()
				if c.Op == "shl" {
					got = a.ShiftL(c.N)
				} else {
					got = a.ShiftR(c.N)
				}
			}()
			if !refused {
				gc, ge := got.CoEx()
				msg = fmt.Sprintf("%s by %d of %vd%d: the exponent %d is out of range, yet the call returned %vd%d", c.Op, c.N, ac, ae, r, gc, ge)
			}
			cls += ".out-of-range"
			break
		}
		if c.Op == "shl" {
			msg = valueEq(a.ShiftL(c.N), ac, r)
		} else {
			msg = valueEq(a.ShiftR(c.N), ac, r)
		}
	case "cmp", "equal":
		m := min64(ae, be)
		want := scaled(ac, ae, m).Cmp(scaled(bc, be, m))
		if c.Op == "cmp" {
			if got := a.Cmp(b); got != want {
				msg = fmt.Sprintf("Cmp = %d, want %d", got, want)
			}
		} else if got := a.Equal(b); got != (want == 0) {
			msg = fmt.Sprintf("Equal = %v, want %v", got, want == 0)
		}
	case "sign":
		if got := a.Sign(); got != ac.Sign() {
			msg = fmt.Sprintf("Sign = %d, want %d", got, ac.Sign())
		}
		if msg == "" && ac.IsInt64() {
			// NewDecimalInt(n) is n with exponent 0
			msg = valueEq(ion.NewDecimalInt(ac.Int64()), ac, 0)
			if msg != "" {
				msg = "NewDecimalInt: " + msg
			}
		}
	case "trunc":
		k := int64(digitsOf(ac) - c.N)
		if k < 0 {
			k = 0
		}
		q := new(big.Int).Quo(ac, pow10(k)) // Quo truncates toward zero
		msg = valueEq(a.Truncate(c.N), q, ae+k)
		nt = nt || k > 0
	case "text":
		s := a.String()
		if !ionDecimalLiteral.MatchString(s) {
			msg = fmt.Sprintf("String() = %q is not an Ion decimal literal", s)
			break
		}
		p, err := ion.ParseDecimal(s)
		if err != nil {
			msg = fmt.Sprintf("ParseDecimal(%q): %v", s, err)
			break
		}
		pc, pe := p.CoEx()
		pnz := pc.Sign() == 0 && len(p.String()) > 0 && p.String()[0] == '-'
		if pc.Cmp(ac) != 0 || int64(pe) != ae || pnz != c.A.NegZero {
			msg = fmt.Sprintf("ParseDecimal(String()) of %vd%d negzero=%v via %q gives %vd%d negzero=%v", ac, ae, c.A.NegZero, s, pc, pe, pnz)
		}
		// NewDecimal -> CoEx identity
		cc, ce := a.CoEx()
		if cc.Cmp(ac) != 0 || int64(ce) != ae {
			msg = fmt.Sprintf("CoEx of NewDecimal(%v,%d) = %v,%d", ac, ae, cc, ce)
		}
		hasExp := regexp.MustCompile(`[dD]`).MatchString(s)
		nt = nt || hasExp
		if hasExp {
			cls += ".exponent-form"
		}
	default:
		return "harness: unknown op " + c.Op
	}
	// no operation may change its operands (results must not share storage with
	// them either: a second operation on the same operands gives the same answer)
	if msg == "" {
		for i, pair := range []struct {
			d *ion.Decimal
			j DecJ
		}{{a, c.A}, {b, c.B}} {
			gc, ge := pair.d.CoEx()
			if gc.Cmp(pair.j.big()) != 0 || int64(ge) != pair.j.Exp {
				msg = fmt.Sprintf("%s changed its %s operand from %vd%d to %vd%d", c.Op, []string{"first", "second"}[i], pair.j.big(), pair.j.Exp, gc, ge)
			}
		}
	}
	if msg == "" && (c.Op == "add" || c.Op == "sub" || c.Op == "mul") && !strings.HasSuffix(cls, ".out-of-range") {
		var r1, r2 *ion.Decimal
		switch c.Op {
		case "add":
			r1 = a.Add(b)
			_ = a.Sub(b)
			r2 = a.Add(b)
		case "sub":
			r1 = a.Sub(b)
			_ = a.Add(b)
			r2 = a.Sub(b)
		default:
			r1 = a.Mul(b)
			_ = b.Mul(a).Neg() // (exponents of a product's operands may be too far apart to add)
			r2 = a.Mul(b)
		}
		c1, e1 := r1.CoEx()
		c2, e2 := r2.CoEx()
		if c1.Cmp(c2) != 0 || e1 != e2 {
			msg = fmt.Sprintf("%s gives %vd%d, then (after another operation on the same operands) %vd%d: results or operands share storage", c.Op, c1, e1, c2, e2)
		}
	}
	st.Eval(nt, model.DigestBytes(c.Op, []byte(fmt.Sprint(c.A, c.B, c.N))), cls)
	st.Sample(func() string { return fmt.Sprintf("%s a=%vd%d b=%vd%d n=%d", c.Op, c.A.Coef, ae, c.B.Coef, be, c.N) })
	return msg
}

func clampExp(e int64) int64 {
	if e > math.MaxInt32 {
		return math.MaxInt32
	}
	if e < -math.MaxInt32 {
		return -math.MaxInt32
	}
	return e
}

func genC14(t *rapid.T) C14Case {
	var c C14Case
	c.Op = gen.Pick(t, c14Ops)
	a := gen.Dec(t)
	if gen.Chance(t, 30) {
		// coefficient up to 10^60
		n := gen.Range(t, 1, 60)
		ds := make([]byte, n)
		for i := range ds {
			ds[i] = byte('0' + gen.Intn(t, 10))
		}
		a.Coef, _ = new(big.Int).SetString(string(ds), 10)
		if gen.Chance(t, 50) {
			a.Coef.Neg(a.Coef)
		}
		a.NegZero = false
	}
	b := gen.Dec(t)
	maxDelta := Scale(400, 5000)
	delta := int64(gen.Pick(t, []int{0, 1, -1, 2, -3, 17, -17, gen.Range(t, -maxDelta, maxDelta), gen.Range(t, -30, 30)}))
	b.Exp = clampExp(a.Exp + delta)
	if gen.Chance(t, 25) && a.Coef.Sign() != 0 {
		// b is a rescaled to another exponent, exactly or off by a little: equal
		// and near-equal values with different exponents
		k := int64(gen.Pick(t, []int{1, 2, 3, 4, 5, 6, 7, 9, 12, 15, 18, 19, 20, 21, 30}))
		b.NegZero = false
		b.Exp = clampExp(a.Exp - k)
		k = a.Exp - b.Exp
		b.Coef = new(big.Int).Mul(a.Coef, pow10(k))
		b.Coef.Add(b.Coef, big.NewInt(int64(gen.Pick(t, []int{0, 0, 1, -1, 2, -7, 23, gen.Range(t, -1000, 1000)}))))
		if gen.Chance(t, 30) {
			a, b = b, a
		}
	}
	switch c.Op {
	case "mul":
		if gen.Chance(t, 6) {
			// exponents whose sum lands on, or just beyond, the ends of the range
			a.Exp = gen.Pick(t, []int64{math.MaxInt32, math.MaxInt32 - 3, -math.MaxInt32, -math.MaxInt32 + 3})
			b.Exp = gen.Pick(t, []int64{0, 1, 2, 3, 4, -1, -2, -3, -4})
			break
		}
		if s := a.Exp + b.Exp; s > math.MaxInt32 || s < -math.MaxInt32 {
			a.Exp /= 2
			b.Exp = clampExp(a.Exp + delta)
			if s := a.Exp + b.Exp; s > math.MaxInt32 || s < -math.MaxInt32 {
				b.Exp = 0
			}
		}
	case "shl", "shr":
		c.N = gen.Pick(t, []int{0, 1, -1, 9, gen.Range(t, -100000, 100000), gen.Range(t, -20, 20)})
		r := a.Exp + int64(c.N)
		if c.Op == "shr" {
			r = a.Exp - int64(c.N)
		}
		if r > math.MaxInt32 || r < -math.MaxInt32 {
			c.N = 0
		}
		if gen.Chance(t, 12) {
			// exponents at the ends of the range, shifted across them and back
			a.Exp = gen.Pick(t, []int64{math.MaxInt32, math.MaxInt32 - 1, math.MaxInt32 - 50, math.MinInt32 + 1, math.MinInt32 + 2, math.MinInt32 + 50, 2000000000, -2000000000})
			c.N = gen.Pick(t, []int{1, -1, 2, -2, 49, 50, 51, -49, -50, -51, 147483647, 147483648, -147483648, 2000000000, -2000000000, 2147483647, -2147483647})
		}
	case "trunc":
		c.N = gen.Pick(t, []int{1, 2, 3, gen.Range(t, 1, 80)})
		k := int64(digitsOf(a.Coef) - c.N)
		if k > 0 && a.Exp+k > math.MaxInt32 {
			a.Exp = 0
		}
	case "text":
		if gen.Chance(t, 3) {
			a.Exp = math.MinInt32
		}
	}
	c.A, c.B = decJ(a), decJ(b)
	return c
}

func TestC14(t *testing.T) {
	p := Prop[C14Case]{ID: "C14", Sub: "arith", Gen: genC14, Run: runC14}
	// every pair of machine-word boundary coefficients under every binary operation
	EnumerateSharded(t, p, "boundary-pairs", func(shard, nshards int, yield func(C14Case) bool) {
		var coefs []*big.Int
		for _, s := range []string{"0", "1", "2", "9", "10", "2147483647", "2147483648", "4294967295", "4294967296", "9223372036854775807", "9223372036854775808",
			"9223372036854775809", "18446744073709551615", "18446744073709551616", "1000000000000000000", "10000000000000000000", "3037000500", "4611686018427387904"} {
			v, _ := new(big.Int).SetString(s, 10)
			coefs = append(coefs, v, new(big.Int).Neg(v))
		}
		idx := 0
		for _, op := range []string{"add", "sub", "mul", "cmp", "equal"} {
			for _, x := range coefs {
				for _, y := range coefs {
					for _, ex := range []int64{0, 1, -1, 19, -19} {
						idx++
						if idx%nshards != shard {
							continue
						}
						c := C14Case{Op: op, A: decJ(model.Dec{Coef: x, Exp: 0}), B: decJ(model.Dec{Coef: y, Exp: ex})}
						if !yield(c) {
							return
						}
					}
				}
			}
		}
	})
	// exhaustive grid for String/Parse: coefficients with 1..6 digits (first,
	// middle, last of each length) x exponents -8..8 x sign x negative zero
	Enumerate(t, p, "text-grid", func(yield func(C14Case) bool) {
		var coefs []int64
		lo := int64(1)
		for d := 1; d <= 6; d++ {
			hi := lo*10 - 1
			coefs = append(coefs, lo, (lo+hi)/2, hi)
			lo *= 10
		}
		coefs = append(coefs, 0)
		for _, cf := range coefs {
			for e := int64(-8); e <= 8; e++ {
				for _, sign := range []int64{1, -1} {
					for _, nz := range []bool{false, true} {
						if nz && (cf != 0 || sign < 0) {
							continue
						}
						c := C14Case{Op: "text", A: DecJ{fmt.Sprint(cf * sign), e, nz}, B: DecJ{"0", e, false}}
						if !yield(c) {
							return
						}
						for _, op := range []string{"trunc", "neg", "abs", "sign"} {
							for n := 1; n <= 7; n++ {
								if !yield(C14Case{Op: op, A: DecJ{fmt.Sprint(cf * sign), e, false}, B: DecJ{"0", e, false}, N: n}) {
									return
								}
								if op != "trunc" {
									break
								}
							}
						}
					}
				}
			}
		}
	})
	// Truncate and the text round trip around every power of ten up to 10^420
	// (digit counting on long coefficients), and the text round trip at the ends
	// of the exponent range
	EnumerateSharded(t, p, "powers-of-ten", func(shard, nshards int, yield func(C14Case) bool) {
		idx := 0
		for k := int64(0); k <= 420; k++ {
			for _, d := range []int64{-1, 0, 1} {
				cf := new(big.Int).Add(pow10(k), big.NewInt(d))
				if cf.Sign() == 0 {
					continue
				}
				for _, sign := range []int64{1, -1} {
					idx++
					if idx%nshards != shard {
						continue
					}
					v := new(big.Int).Mul(cf, big.NewInt(sign))
					digits := digitsOf(v)
					for _, n := range []int{digits - 1, digits, digits + 1} {
						if n >= 1 && !yield(C14Case{Op: "trunc", A: DecJ{v.String(), -k, false}, B: DecJ{"0", 0, false}, N: n}) {
							return
						}
					}
					if !yield(C14Case{Op: "text", A: DecJ{v.String(), -k / 2, false}, B: DecJ{"0", 0, false}}) {
						return
					}
				}
			}
		}
		for _, cf := range []string{"5", "-5", "12", "12345", "-1200", "0", "99999999999999999999"} {
			for _, e := range []int64{math.MinInt32, math.MinInt32 + 1, math.MinInt32 + 2, math.MinInt32 + 5, math.MaxInt32 - 5, math.MaxInt32 - 1, math.MaxInt32} {
				idx++
				if idx%nshards != shard {
					continue
				}
				if !yield(C14Case{Op: "text", A: DecJ{cf, e, false}, B: DecJ{"0", 0, false}}) {
					return
				}
			}
		}
	})
	// exhaustive small grid for binary operations
	Enumerate(t, p, "binop-grid", func(yield func(C14Case) bool) {
		vals := []int64{0, 1, -1, 9, 10, -10, 99, 100, 101, -999, 12345}
		for _, op := range []string{"add", "sub", "mul", "cmp", "equal"} {
			for _, x := range vals {
				for _, y := range vals {
					for ea := int64(-3); ea <= 3; ea++ {
						for eb := int64(-3); eb <= 3; eb++ {
							if !yield(C14Case{Op: op, A: DecJ{fmt.Sprint(x), ea, false}, B: DecJ{fmt.Sprint(y), eb, false}}) {
								return
							}
						}
					}
				}
			}
		}
	})
	p.Quick, p.Thorough = 20000, 400000
	RunProp(t, p)
}

func init() {
	Describe("C14",
		"cases: (op, a, b, n) with op in add/sub/mul/neg/abs/shl/shr/cmp/equal/sign/trunc/text; rapid-generated (boundary-pool and random coefficients to 2^2048 / 10^60, exponents across the int32 range with |exp(a)-exp(b)| bounded) plus two exhaustive grids. Non-trivial: operands have different exponents, or a coefficient >= 2^63, or Truncate actually cuts digits, or String() takes the exponent layout. Distinct by digest(op,a,b,n).",
		"oracle: exact scaled-integer arithmetic with math/big written in the harness; every arithmetic result is also read through Sign() and through String() -> ParseDecimal, which must give the coefficient and exponent its CoEx reports",
		"exponent -2^31 only in the String/Parse sub-check (NewDecimal cannot represent its negated scale)",
		"documented preconditions respected: result exponents inside int32, Truncate precision >= 1",
	)
}
