package checks

import (
	"fmt"
	"sort"
	"strings"
	"testing"

	"github.com/amzn/ion-go/ion"
	"pgregory.net/rapid"

	"verif/h/drive"
	"verif/h/gen"
	"verif/h/model"
	"verif/h/refbin"
)

// C09 — symbol tables assign and resolve IDs as the Ion rules prescribe.

// ImportJ is one declared import plus what the catalog holds for its name.
type ImportJ struct {
	Name    string   `json:"name"`
	Version int      `json:"version"`
	MaxID   int      `json:"max_id"`  // declared max_id (>= 0)
	Catalog string   `json:"catalog"` // exact | newer | older | missing
	Symbols []string `json:"symbols"` // symbols of the table found in the catalog ("" = gap)
}

type C09Case struct {
	Imports []ImportJ `json:"imports"`
	Locals  []string  `json:"locals"`
	// Via: "api" builds with NewLocalSymbolTable + Adjust (only when every import
	// is found), "text" / "binary" let a Reader build it from a stream + catalog.
	Via string `json:"via"`
}

var c09Alphabet = []string{"a", "b", "name", ""}

func catVersion(im ImportJ) int {
	switch im.Catalog {
	case "newer":
		return im.Version + 1
	case "older":
		return im.Version - 1
	}
	return im.Version
}

func slotsOf(symbols []string) []refbin.Slot {
	out := make([]refbin.Slot, len(symbols))
	for i, s := range symbols {
		if s != "" {
			out[i] = refbin.K(s)
		}
	}
	return out
}

func quoteIon(s string) string {
	var sb strings.Builder
	sb.WriteByte('"')
	for i := 0; i < len(s); i++ {
		c := s[i]
		switch {
		case c == '"' || c == '\\':
			sb.WriteByte('\\')
			sb.WriteByte(c)
		case c < 0x20:
			fmt.Fprintf(&sb, "\\x%02x", c)
		default:
			sb.WriteByte(c)
		}
	}
	sb.WriteByte('"')
	return sb.String()
}

// c09TextDecl spells the table declaration of c as a text local symbol table.
func c09TextDecl(c C09Case) string {
	var sb strings.Builder
	sb.WriteString("$ion_symbol_table::{")
	if len(c.Imports) > 0 {
		sb.WriteString("imports:[")
		for i, im := range c.Imports {
			if i > 0 {
				sb.WriteString(",")
			}
			fmt.Fprintf(&sb, "{name:%s,version:%d,max_id:%d}", quoteIon(im.Name), im.Version, im.MaxID)
		}
		sb.WriteString("],")
	}
	sb.WriteString("symbols:[")
	for i, s := range c.Locals {
		if i > 0 {
			sb.WriteString(",")
		}
		sb.WriteString(quoteIon(s))
	}
	sb.WriteString("]}")
	return sb.String()
}

// c09Build returns the table under test and the reference ID space.
func c09Build(c C09Case) (ion.SymbolTable, *refbin.SymTab, string) {
	var rcat refbin.Catalog
	var icat []ion.SharedSymbolTable
	var rimps []refbin.Import
	for _, im := range c.Imports {
		rimps = append(rimps, refbin.Import{Name: im.Name, Version: im.Version, MaxID: im.MaxID})
		if im.Catalog != "missing" {
			rcat = append(rcat, refbin.Shared{Name: im.Name, Version: catVersion(im), Slots: slotsOf(im.Symbols)})
			icat = append(icat, ion.NewSharedSymbolTable(im.Name, catVersion(im), im.Symbols))
		}
	}
	locals := make([]refbin.Slot, len(c.Locals))
	for i, s := range c.Locals {
		locals[i] = refbin.K(s) // a local "" is the empty symbol: defined text
	}
	ref, err := refbin.BuildLocal(rimps, locals, rcat)
	if err != nil {
		return nil, nil, "harness: " + err.Error()
	}
	switch c.Via {
	case "api":
		var imps []ion.SharedSymbolTable
		for i, im := range c.Imports {
			if im.Catalog == "missing" {
				return nil, nil, "harness: api path with a missing import"
			}
			imps = append(imps, icat[i].Adjust(uint64(im.MaxID)))
		}
		return localTable(imps, c.Locals), ref, ""
	case "text", "binary":
		var doc []byte
		if c.Via == "text" {
			doc = []byte(c09TextDecl(c) + " 0")
		} else {
			e := refbin.NewEnc(nil)
			doc = append(doc, refbin.IVM...)
			doc = e.LST(doc, rimps, append([]refbin.Slot{}, locals...), false)
			doc = append(doc, 0x20)
		}
		r := ion.NewReaderCat(strings.NewReader(string(doc)), ion.NewCatalog(icat...))
		if !r.Next() {
			return nil, nil, fmt.Sprintf("reader could not read the table declaration %q: %v", doc, r.Err())
		}
		return r.SymbolTable(), ref, ""
	}
	return nil, nil, "harness: unknown via " + c.Via
}

func checkTableAgainstModel(tab ion.SymbolTable, ref *refbin.SymTab, texts []string) string {
	if got := tab.MaxID(); got != uint64(ref.MaxID()) {
		return fmt.Sprintf("MaxID()=%d, model %d", got, ref.MaxID())
	}
	for id := 0; id <= ref.MaxID()+2; id++ {
		text, ok := tab.FindByID(uint64(id))
		slot, defined := ref.Lookup(uint64(id))
		switch {
		case id == 0 || !defined:
			if ok && text != "" {
				return fmt.Sprintf("FindByID(%d)=(%q,true) but the ID is outside 1..%d", id, text, ref.MaxID())
			}
			if ok && id > ref.MaxID() {
				return fmt.Sprintf("FindByID(%d) found although MaxID is %d", id, ref.MaxID())
			}
		case slot.Known:
			if !ok || text != slot.Text {
				return fmt.Sprintf("FindByID(%d)=(%q,%v), model %q", id, text, ok, slot.Text)
			}
		default:
			// undefined text: not found, or ion-go's "" stand-in
			if ok && text != "" {
				return fmt.Sprintf("FindByID(%d)=(%q,true) for a slot with undefined text", id, text)
			}
		}
		tok, err := ion.NewSymbolTokenBySID(tab, int64(id))
		if id > ref.MaxID() {
			if err == nil {
				return fmt.Sprintf("NewSymbolTokenBySID(%d) accepted an ID above MaxID %d", id, ref.MaxID())
			}
		} else {
			if err != nil {
				return fmt.Sprintf("NewSymbolTokenBySID(%d): %v", id, err)
			}
			if slot.Known && (tok.Text == nil || *tok.Text != slot.Text) {
				return fmt.Sprintf("NewSymbolTokenBySID(%d) text %v, model %q", id, tok.Text, slot.Text)
			}
			if tok.LocalSID != int64(id) {
				return fmt.Sprintf("NewSymbolTokenBySID(%d).LocalSID=%d", id, tok.LocalSID)
			}
		}
	}
	if _, err := ion.NewSymbolTokenBySID(tab, -1); err == nil {
		return "NewSymbolTokenBySID(-1) accepted"
	}
	for _, text := range texts {
		want := ref.Lowest(text)
		id, ok := tab.FindByName(text)
		if text == "" {
			// ion-go does not index the empty text by name; only consistency is asserted
			if ok {
				if s, defined := ref.Lookup(id); !defined || (s.Known && s.Text != "") {
					return fmt.Sprintf("FindByName(\"\")=%d which carries %q in the model", id, s.Text)
				}
			}
			continue
		}
		if want == 0 {
			if ok {
				return fmt.Sprintf("FindByName(%q)=(%d,true) but no slot carries that text", text, id)
			}
			if tok := tab.Find(text); tok != nil {
				return fmt.Sprintf("Find(%q) non-nil but no slot carries that text", text)
			}
			if tok, err := ion.NewSymbolToken(tab, text); err != nil || tok.LocalSID != ion.SymbolIDUnknown || tok.Text == nil || *tok.Text != text {
				return fmt.Sprintf("NewSymbolToken(%q) for undefined text = %v, %v", text, tok, err)
			}
			continue
		}
		if !ok || id != uint64(want) {
			return fmt.Sprintf("FindByName(%q)=(%d,%v), lowest ID carrying it is %d", text, id, ok, want)
		}
		if back, ok := tab.FindByID(id); !ok || back != text {
			return fmt.Sprintf("FindByID(FindByName(%q)=%d)=(%q,%v)", text, id, back, ok)
		}
		if tok := tab.Find(text); tok == nil || tok.Text == nil || *tok.Text != text {
			return fmt.Sprintf("Find(%q)=%v", text, tok)
		}
		if tok, err := ion.NewSymbolToken(tab, text); err != nil || tok.LocalSID != int64(want) || tok.Text == nil || *tok.Text != text {
			return fmt.Sprintf("NewSymbolToken(%q)=%v,%v want SID %d", text, tok, err, want)
		}
	}
	// NewSymbolTokens is NewSymbolToken for each text, in order; tokens are Equal
	// exactly when their texts are
	toks, err := ion.NewSymbolTokens(tab, texts)
	if err != nil || len(toks) != len(texts) {
		return fmt.Sprintf("NewSymbolTokens(%q) = %d tokens, %v", texts, len(toks), err)
	}
	for i, text := range texts {
		one, _ := ion.NewSymbolToken(tab, text)
		if toks[i].Text == nil || *toks[i].Text != text || toks[i].LocalSID != one.LocalSID {
			return fmt.Sprintf("NewSymbolTokens(...)[%d] = %s, NewSymbolToken(%q) = %s", i, toks[i].String(), text, one.String())
		}
		for j := range texts {
			if eq := toks[i].Equal(&toks[j]); eq != (texts[i] == texts[j]) {
				return fmt.Sprintf("SymbolToken.Equal(%s, %s) = %v", toks[i].String(), toks[j].String(), eq)
			}
		}
	}
	return ""
}

func runC09(c C09Case) string {
	st := Stat("C09")
	nt := false
	seen := map[string]bool{}
	for _, im := range c.Imports {
		if im.MaxID != len(im.Symbols) || im.Catalog != "exact" {
			nt = true
		}
		for _, s := range im.Symbols {
			if seen[s] {
				nt = true
			}
			seen[s] = true
		}
	}
	for _, s := range c.Locals {
		if seen[s] {
			nt = true
		}
		seen[s] = true
		for _, sys := range refbin.SystemSymbols {
			if sys == s {
				nt = true
			}
		}
	}
	st.Eval(nt, model.DigestBytes("c09", []byte(fmt.Sprintf("%+v", c))), "via."+c.Via, fmt.Sprintf("imports.%d", len(c.Imports)))
	st.Sample(func() string { return fmt.Sprintf("%+v", c) })
	return drive.Guard2(func() string {
		tab, ref, msg := c09Build(c)
		if msg != "" {
			return msg
		}
		texts := append([]string{}, c09Alphabet...)
		texts = append(texts, "$ion", "version", "$ion_shared_symbol_table", "zzz")
		if m := checkTableAgainstModel(tab, ref, texts); m != "" {
			return fmt.Sprintf("%s (table built via %s)", m, c.Via)
		}
		// Imports(): system table first, then each import with its declared max_id
		imps := tab.Imports()
		if len(imps) != len(c.Imports)+1 {
			return fmt.Sprintf("Imports() has %d entries, want %d", len(imps), len(c.Imports)+1)
		}
		for i, im := range c.Imports {
			g := imps[i+1]
			if g.Name() != im.Name || g.MaxID() != uint64(im.MaxID) {
				return fmt.Sprintf("Imports()[%d] = %s max_id %d, want %s max_id %d", i+1, g.Name(), g.MaxID(), im.Name, im.MaxID)
			}
		}
		if got := tab.Symbols(); len(got) != len(c.Locals) {
			return fmt.Sprintf("Symbols() has %d entries, want %d", len(got), len(c.Locals))
		}
		if c.Via == "text" {
			// a $n above the maximum, however large, is refused wherever a symbol
			// token may stand (and never comes back as a symbol that has that text)
			max := ref.MaxID()
			for _, n := range []string{fmt.Sprint(max + 1), fmt.Sprint(max + 2), "2147483648", "9223372036854775807", "9223372036854775808",
				"18446744073709551615", "18446744073709551616", "99999999999999999999", "000000000000000000000" + fmt.Sprint(max+1)} {
				for _, form := range []string{" $%s", " $%s::1", " {$%s:1}", " ($%s)", " [a::$%s]"} {
					doc := c09TextDecl(c) + fmt.Sprintf(form, n)
					r := ion.NewReaderCat(strings.NewReader(doc), ion.NewCatalog(c09IonCatalog(c)...))
					if _, err := drive.Observe(r); err == nil {
						return fmt.Sprintf("the reader accepts %q although the table's maximum ID is %d", doc, max)
					}
				}
			}
		}
		return ""
	})
}

func c09IonCatalog(c C09Case) (icat []ion.SharedSymbolTable) {
	for _, im := range c.Imports {
		if im.Catalog != "missing" {
			icat = append(icat, ion.NewSharedSymbolTable(im.Name, catVersion(im), im.Symbols))
		}
	}
	return icat
}

// ---- builder state machine

type C09BuilderCase struct {
	Imports []SharedJ `json:"imports"`
	Ops     []string  `json:"ops"` // "add:<text>", "build", "check"
}

func runC09Builder(c C09BuilderCase) string {
	st := Stat("C09")
	return drive.Guard2(func() string {
		b := ion.NewSymbolTableBuilder(ionSSTs(c.Imports)...)
		var rimps []refbin.Import
		var rcat refbin.Catalog
		for _, s := range c.Imports {
			rimps = append(rimps, refbin.Import{Name: s.Name, Version: s.Version, MaxID: len(s.slots())})
			rcat = append(rcat, refbin.Shared{Name: s.Name, Version: s.Version, Slots: s.slots()})
		}
		ref, err := refbin.BuildLocal(rimps, nil, rcat)
		if err != nil {
			return "harness: " + err.Error()
		}
		type snap struct {
			tab ion.SymbolTable
			ref *refbin.SymTab
		}
		var snaps []snap
		texts := []string{"a", "b", "name", "x", "y", "$ion", "zzz", "$5"}
		builds, readds := 0, 0
		for i, op := range c.Ops {
			switch {
			case strings.HasPrefix(op, "add:"):
				text := op[4:]
				want := ref.Lowest(text)
				if text == "" {
					// the builder treats "" as ordinary text once added locally
					for j := len(ref.Slots) - ref.NLocal; j < len(ref.Slots); j++ {
						if ref.Slots[j].Known && ref.Slots[j].Text == "" {
							want = j
							break
						}
					}
				}
				id, added := b.Add(text)
				if want != 0 {
					readds++
					if added || id != uint64(want) {
						return fmt.Sprintf("op %d Add(%q)=(%d,%v): text already has ID %d", i, text, id, added, want)
					}
				} else {
					if !added || id != uint64(ref.MaxID()+1) {
						return fmt.Sprintf("op %d Add(%q)=(%d,%v): want new ID %d", i, text, id, added, ref.MaxID()+1)
					}
					ref = ref.Append([]refbin.Slot{refbin.K(text)})
				}
			case op == "build":
				builds++
				snaps = append(snaps, snap{b.Build(), ref.Clone()})
			}
			// invariant after every step
			if m := checkTableAgainstModel(b, ref, texts); m != "" {
				return fmt.Sprintf("after op %d (%s) builder: %s", i, op, m)
			}
			for k, s := range snaps {
				if m := checkTableAgainstModel(s.tab, s.ref, texts); m != "" {
					return fmt.Sprintf("after op %d (%s) snapshot %d changed: %s", i, op, k, m)
				}
			}
		}
		st.Eval(builds > 0 && readds > 0, model.DigestBytes("c09b", []byte(fmt.Sprintf("%+v", c))), "builder")
		return ""
	})
}

// ---- catalog and Adjust

type C09CatalogCase struct {
	Tables []SharedJ `json:"tables"`
}

func runC09Catalog(c C09CatalogCase) string {
	st := Stat("C09")
	st.Eval(len(c.Tables) > 1, model.DigestBytes("c09c", []byte(fmt.Sprintf("%+v", c))), "catalog")
	return drive.Guard2(func() string {
		cat := ion.NewCatalog(ionSSTs(c.Tables)...)
		type key struct {
			n string
			v int
		}
		last := map[key]SharedJ{}
		latest := map[string]int{}
		for _, t := range c.Tables {
			last[key{t.Name, t.Version}] = t
			if v, ok := latest[t.Name]; !ok || t.Version > v {
				latest[t.Name] = t.Version
			}
		}
		names := []string{"t1", "t2", "tbl", "T", "nope"}
		for _, n := range names {
			for _, v := range []int{0, 1, 2, 3, 4, 5, 9, 10, 11, 12, 99, 100, 101, 1000, 1001} {
				got := cat.FindExact(n, v)
				want, ok := last[key{n, v}]
				if !ok {
					if got != nil {
						return fmt.Sprintf("FindExact(%s,%d) found %s/%d which was never registered", n, v, got.Name(), got.Version())
					}
					continue
				}
				if got == nil || got.Name() != n || got.Version() != v {
					return fmt.Sprintf("FindExact(%s,%d) = %v", n, v, got)
				}
				if got.MaxID() != uint64(len(want.slots())) {
					return fmt.Sprintf("FindExact(%s,%d).MaxID()=%d want %d", n, v, got.MaxID(), len(want.slots()))
				}
			}
			got := cat.FindLatest(n)
			if v, ok := latest[n]; ok {
				if got == nil || got.Version() != v || got.Name() != n {
					return fmt.Sprintf("FindLatest(%s) = %v, want version %d", n, got, v)
				}
			} else if got != nil {
				return fmt.Sprintf("FindLatest(%s) found %s", n, got.Name())
			}
		}
		// Adjust: any max_id, up and down, never changes the receiver
		for _, t := range c.Tables {
			base := ion.NewSharedSymbolTable(t.Name, t.Version, t.Symbols)
			for m := 0; m <= len(t.Symbols)+3; m++ {
				adj := base.Adjust(uint64(m))
				ref := &refbin.SymTab{Slots: []refbin.Slot{{}}}
				for i := 0; i < m; i++ {
					if i < len(t.Symbols) && t.Symbols[i] != "" {
						ref.Slots = append(ref.Slots, refbin.K(t.Symbols[i]))
					} else {
						ref.Slots = append(ref.Slots, refbin.Slot{})
					}
				}
				if msg := checkTableAgainstModel(adj, ref, append([]string{"zzz"}, t.Symbols...)); msg != "" {
					return fmt.Sprintf("%s/%d Adjust(%d): %s", t.Name, t.Version, m, msg)
				}
				if base.MaxID() != uint64(len(t.Symbols)) {
					return fmt.Sprintf("Adjust(%d) changed the receiver's MaxID to %d", m, base.MaxID())
				}
				if len(adj.Symbols()) != m {
					return fmt.Sprintf("Adjust(%d).Symbols() has %d entries", m, len(adj.Symbols()))
				}
			}
		}
		return ""
	})
}

func genC09(t *rapid.T) C09Case {
	var c C09Case
	n := gen.Pick(t, []int{0, 1, 1, 2, 3, 4})
	allFound := true
	for i := 0; i < n; i++ {
		im := ImportJ{Name: fmt.Sprintf("t%d", i+1), Version: gen.Range(t, 2, 3), Catalog: gen.Pick(t, []string{"exact", "exact", "newer", "older", "missing"})}
		k := gen.Range(t, 0, 6)
		for j := 0; j < k; j++ {
			im.Symbols = append(im.Symbols, gen.Pick(t, []string{"a", "b", "name", "", "c", "x", "version", "sym", "$ion"}))
		}
		im.MaxID = gen.Pick(t, []int{k, k, 0, gen.Range(t, 0, k+4)})
		if im.Catalog == "missing" {
			allFound = false
		}
		c.Imports = append(c.Imports, im)
	}
	k := gen.Range(t, 0, 6)
	for j := 0; j < k; j++ {
		c.Locals = append(c.Locals, gen.Pick(t, []string{"a", "b", "name", "", "c", "x", "version", "local", "$ion_symbol_table", "zzz"}))
	}
	vias := []string{"text", "binary"}
	if allFound {
		vias = append(vias, "api", "api")
	}
	c.Via = gen.Pick(t, vias)
	return c
}

func genC09Builder(t *rapid.T) C09BuilderCase {
	c := C09BuilderCase{Imports: genSSTs(t, 2)}
	n := gen.Range(t, 1, 25)
	for i := 0; i < n; i++ {
		switch gen.Intn(t, 5) {
		case 0:
			c.Ops = append(c.Ops, "build")
		default:
			c.Ops = append(c.Ops, "add:"+gen.Pick(t, []string{"a", "b", "name", "x", "y", "", "$ion", "new1", "new2", "$5", "abc", "f", "g", "sym1"}))
		}
	}
	return c
}

func genC09Catalog(t *rapid.T) C09CatalogCase {
	var c C09CatalogCase
	n := gen.Range(t, 0, 6)
	for i := 0; i < n; i++ {
		s := SharedJ{Name: gen.Pick(t, []string{"t1", "t2", "tbl", "T"}), Version: gen.Pick(t, []int{1, 2, 3, 4, 9, 10, 11, 99, 100, 101, 1000}), MaxID: -1}
		k := gen.Range(t, 0, 5)
		for j := 0; j < k; j++ {
			s.Symbols = append(s.Symbols, gen.Pick(t, sstSymbolPool))
		}
		c.Tables = append(c.Tables, s)
	}
	return c
}

func TestC09(t *testing.T) {
	p := Prop[C09Case]{ID: "C09", Sub: "idspace", Gen: genC09, Run: runC09, Quick: 5000, Thorough: 100000}
	// exhaustive grid: 0..2 imports (3 in thorough), each 0..2 symbols over the
	// alphabet with max_id 0..3 and four catalog states; locals 0..2 symbols
	Enumerate(t, p, "grid", func(yield func(C09Case) bool) {
		maxSyms := 2
		var symLists [][]string
		var rec func(cur []string)
		rec = func(cur []string) {
			symLists = append(symLists, append([]string{}, cur...))
			if len(cur) == maxSyms {
				return
			}
			for _, a := range c09Alphabet {
				rec(append(cur, a))
			}
		}
		rec(nil)
		sort.Slice(symLists, func(i, j int) bool { return len(symLists[i]) < len(symLists[j]) })
		var imports []ImportJ
		for _, sl := range symLists {
			for m := 0; m <= 3; m++ {
				for _, cs := range []string{"exact", "newer", "missing"} {
					if cs == "missing" && len(sl) > 0 {
						continue
					}
					imports = append(imports, ImportJ{Name: "t", Version: 2, MaxID: m, Catalog: cs, Symbols: sl})
				}
			}
		}
		n := 0
		emit := func(imps []ImportJ) bool {
			for _, loc := range symLists {
				allFound := true
				for i := range imps {
					imps[i].Name = fmt.Sprintf("t%d", i+1)
					if imps[i].Catalog == "missing" {
						allFound = false
					}
				}
				vias := []string{"text", "binary"}
				if allFound {
					vias = append(vias, "api")
				}
				n++
				via := vias[n%len(vias)]
				if !yield(C09Case{Imports: append([]ImportJ{}, imps...), Locals: loc, Via: via}) {
					return false
				}
			}
			return true
		}
		if !emit(nil) {
			return
		}
		for _, a := range imports {
			if !emit([]ImportJ{a}) {
				return
			}
		}
		step := 7
		if Thorough() {
			step = 1
		}
		for i := 0; i < len(imports); i += step {
			for j := 0; j < len(imports); j += step {
				if !emit([]ImportJ{imports[i], imports[(j+i)%len(imports)]}) {
					return
				}
			}
		}
	})
	RunProp(t, p)
	pb := Prop[C09BuilderCase]{ID: "C09", Sub: "builder", Gen: genC09Builder, Run: runC09Builder, Quick: 3000, Thorough: 100000}
	RunProp(t, pb)
	pc := Prop[C09CatalogCase]{ID: "C09", Sub: "catalog-adjust", Gen: genC09Catalog, Run: runC09Catalog, Quick: 2000, Thorough: 50000}
	RunProp(t, pc)
}

func init() {
	Describe("C09",
		"cases: (a) an import list (0-4 shared tables with gaps, duplicate and shadowing text, declared max_id below / equal / above the table size, catalog state exact / other version / missing) plus a local symbol list, built three ways (NewLocalSymbolTable+Adjust, a Reader over a text declaration, a Reader over a binary declaration) and compared with an independent model of the ID space for every ID in 0..MaxID+2 and every text of an alphabet: exhaustive small grid + random; every text-built table is followed by $n for n = max+1, max+2, 2^31, 2^63-1, 2^63, 2^64-1, 2^64, 10^20 and max+1 with leading zeros, as value / annotation / field name / list element / s-expression element, each of which the reader must refuse; (b) a state machine over SymbolTableBuilder (Add, Build, lookups, with every earlier Build() snapshot re-checked after every step); (c) catalogs built from arbitrary multisets of tables (FindExact / FindLatest) and Adjust to every max_id. Non-trivial: an import whose max_id differs from its size or is not an exact catalog match, duplicate / shadowing text, a builder run with a Build and a re-Add, a catalog with >= 2 tables. Distinct by digest(case).",
		"oracle: independent ID-space model (refbin.BuildLocal)",
		"the empty text is exempt from lookup-by-name assertions (ion-go never indexes it; by-ID results are still checked), and a slot with undefined text may be reported either as not found or as found with empty text (ion-go's representation)",
	)
}
