package checks

import (
	"bytes"
	"fmt"
	"testing"

	"github.com/amzn/ion-go/ion"
	"pgregory.net/rapid"

	"verif/h/drive"
	"verif/h/gen"
	"verif/h/model"
	"verif/h/refbin"
	"verif/h/reftext"
)

// C10 — symbols in a stream resolve against the symbol table in force.

// C10Case is a rendered stream plus the catalog the reader is given. What the
// stream denotes is recomputed from the bytes by the reference decoder, which
// the generator has already cross-checked against its own running model.
type C10Case struct {
	Binary  bool      `json:"binary"`
	Doc     []byte    `json:"doc"`
	Catalog []SharedJ `json:"catalog"`
	// ExpectError: the history ends with an import that cannot be resolved
	// (no usable max_id and no exact catalog match).
	ExpectError bool   `json:"expect_error,omitempty"`
	Changes     int    `json:"changes"` // number of context changes in the history
	Events      string `json:"events"`  // rendered history, for the report
	// Via: which constructor hands the catalog to the reader: 0 NewReaderCat,
	// 1 System.NewReader, 2 System.NewReaderBytes, 3 System.NewReaderString.
	Via int `json:"via,omitempty"`
}

type c10Expect struct {
	vals   []model.Value
	maxIDs []int
	err    error
}

// c10Reference decodes the stream with the reference decoder.
func c10Reference(c C10Case) c10Expect {
	cat := refCatalog(c.Catalog)
	var e c10Expect
	if c.Binary {
		res, err := refbin.Decode(c.Doc, refbin.Options{Catalog: cat})
		e.vals, e.err = res.Values, err
		// table in force at each value: recompute by replaying Uses is not
		// needed; the decoder records the table index per value end through
		// Tables; the generator's own expectation carries MaxIDs.
		return e
	}
	res, err := reftext.Parse(c.Doc, reftext.Options{Catalog: cat})
	e.vals, e.err = res.Values, err
	return e
}

func ionCatalog(ss []SharedJ) ion.Catalog {
	return ion.NewCatalog(ionSSTs(ss)...)
}

// c10Observe reads the stream with ion-go, recording after every top-level
// value the MaxID of Reader.SymbolTable().
func c10Observe(c C10Case) (vals []model.Value, maxIDs []int, err error) {
	err = drive.Guard(func() error {
		var r ion.Reader
		switch sys := (ion.System{Catalog: ionCatalog(c.Catalog)}); c.Via {
		case 1:
			r = sys.NewReader(bytes.NewReader(c.Doc))
		case 2:
			r = sys.NewReaderBytes(c.Doc)
		case 3:
			r = sys.NewReaderString(string(c.Doc))
		default:
			r = ion.NewReaderCat(bytes.NewReader(c.Doc), ionCatalog(c.Catalog))
		}
		for r.Next() {
			v, e := drive.ObserveCurrent(r)
			if e != nil {
				return e
			}
			vals = append(vals, v)
			st := r.SymbolTable()
			if st == nil {
				maxIDs = append(maxIDs, -1)
			} else {
				maxIDs = append(maxIDs, int(st.MaxID()))
			}
		}
		return r.Err()
	})
	return
}

func runC10(c C10Case) string {
	st := Stat("C10")
	format := "text"
	if c.Binary {
		format = "binary"
	}
	exp := c10Reference(c)
	classes := []string{"format." + format, fmt.Sprintf("constructor.%d", c.Via)}
	if c.ExpectError {
		classes = append(classes, "unresolvable-import")
	}
	if len(c.Catalog) > 0 {
		classes = append(classes, "with-catalog")
	}
	nSym := 0
	for _, v := range exp.vals {
		v.Walk(func(x model.Value) {
			if x.Kind == model.Symbol && !x.IsNull {
				nSym++
			}
			nSym += len(x.Ann) + len(x.Fields)
		})
	}
	st.Eval(c.Changes >= 2 && nSym > 0, model.DigestBytes(fmt.Sprintf("c10%v", c.Catalog), c.Doc), classes...)
	st.Sample(func() string {
		return fmt.Sprintf("%s catalog=%v history: %s\ndoc: %s", format, c.Catalog, c.Events, showDoc(c.Doc))
	})
	got, maxIDs, err := c10Observe(c)
	desc := func() string {
		return fmt.Sprintf("\nformat=%s catalog=%+v\nhistory: %s\ndoc: %s", format, c.Catalog, c.Events, showDoc(c.Doc))
	}
	if pe, ok := err.(*drive.PanicError); ok {
		return "reader panics: " + firstLine(pe.Error(), 300) + desc()
	}
	if exp.err != nil {
		// the reference rejects (unresolvable import): ion-go must too, after
		// the same leading values
		if err == nil {
			return fmt.Sprintf("the stream declares an import that cannot be resolved (%v) but the reader finished without error", exp.err) + desc()
		}
		if len(got) < len(exp.vals) {
			return fmt.Sprintf("reader failed (%v) after %d values; %d values precede the unresolvable import", err, len(got), len(exp.vals)) + desc()
		}
		if d := model.DiffSeq(exp.vals, got[:len(exp.vals)]); d != "" {
			return "values before the unresolvable import differ: " + d + desc()
		}
		return ""
	}
	if err != nil {
		return fmt.Sprintf("reader fails on a valid stream: %v (after %d of %d values)", err, len(got), len(exp.vals)) + desc()
	}
	if d := model.DiffSeq(exp.vals, got); d != "" {
		return "values differ from resolution against the table in force: " + d + "\nexpected: " + model.SeqString(exp.vals) + "\ngot:      " + model.SeqString(got) + desc()
	}
	want := c10MaxIDs(c)
	if want != nil {
		for i := range got {
			if i < len(want) && want[i] != maxIDs[i] {
				return fmt.Sprintf("after value %d Reader.SymbolTable().MaxID() = %d, the table in force has max_id %d", i, maxIDs[i], want[i]) + desc()
			}
		}
	}
	return ""
}

// c10MaxIDs recomputes, from the bytes, the max_id of the table in force at
// each user value (reference decoders).
func c10MaxIDs(c C10Case) []int {
	cat := refCatalog(c.Catalog)
	if c.Binary {
		res, err := refbin.Decode(c.Doc, refbin.Options{Catalog: cat})
		if err != nil {
			return nil
		}
		return res.ValueMaxIDs
	}
	res, err := reftext.Parse(c.Doc, reftext.Options{Catalog: cat})
	if err != nil {
		return nil
	}
	return res.ValueMaxIDs
}

// ---- history generation

var c10Alphabet = []string{"a", "b", "c", "x", "y", "name", "s1", "s2", "$ion", "version", "q r", "é"}

func c10Catalog(t *rapid.T) []SharedJ {
	n := gen.Pick(t, []int{0, 1, 2, 2, 3})
	var out []SharedJ
	names := []string{"t1", "t2", "shared"}
	for i := 0; i < n; i++ {
		name := names[i]
		versions := gen.Pick(t, [][]int{{1}, {2}, {1, 2}, {1, 3}, {2, 3}, {9, 10}, {2, 10}, {1, 9, 10}, {99, 100}, {3, 20, 100}})
		for _, v := range versions {
			s := SharedJ{Name: name, Version: v, MaxID: -1}
			k := gen.Range(t, 0, 5)
			for j := 0; j < k; j++ {
				// no gaps: ion-go represents a gap as the text "" (by design, see
				// DESIGN C09/C10), which the statement does not cover
				s.Symbols = append(s.Symbols, gen.Pick(t, c10Alphabet))
			}
			out = append(out, s)
		}
	}
	// the catalog is handed over in any order (newest first, interleaved, ...)
	for i := len(out) - 1; i > 0; i-- {
		j := gen.Intn(t, i+1)
		out[i], out[j] = out[j], out[i]
	}
	return out
}

func c10Slots(t *rapid.T) []refbin.Slot {
	k := gen.Pick(t, []int{0, 1, 2, 2, 3, 4})
	var out []refbin.Slot
	for i := 0; i < k; i++ {
		// an undefined local slot (null / non-string element) still occupies an ID;
		// it is never *referenced* (ion-go reads it as the text "" by design, see
		// DESIGN 13.3): only import placeholders are used as unknown-text IDs
		if gen.Chance(t, 10) {
			out = append(out, refbin.Slot{})
			continue
		}
		out = append(out, refbin.K(gen.Pick(t, c10Alphabet)))
	}
	return out
}

// c10Value draws a user value whose symbols come from the table in force
// (binary can express nothing else); textOK additionally allows fresh text.
func c10Value(t *rapid.T, tab *refbin.SymTab, textOK bool, depth int) model.Value {
	var texts []string
	seen := map[string]bool{}
	for _, s := range tab.Slots[1:] {
		if s.Known && !seen[s.Text] {
			seen[s.Text] = true
			texts = append(texts, s.Text)
		}
	}
	sym := func() model.Sym {
		switch {
		case gen.Chance(t, 12):
			return model.Unknown
		case textOK && gen.Chance(t, 15):
			return model.S(gen.Pick(t, []string{"fresh", "zz", "$ion_symbol_table", "imports", "$ion_1_0", "$ion_1_0"}))
		}
		// prefer local / imported symbols over the nine system symbols
		if len(texts) > 9 && gen.Chance(t, 80) {
			return model.S(texts[9+gen.Intn(t, len(texts)-9)])
		}
		return model.S(gen.Pick(t, texts))
	}
	var v model.Value
	switch k := gen.Intn(t, 10); {
	case k < 5 || depth >= 2:
		v = model.SymV(sym())
	case k == 5:
		v = model.Int64V(int64(gen.Range(t, 0, 99)))
	case k == 6:
		v = model.ListV(c10Value(t, tab, textOK, depth+1), c10Value(t, tab, textOK, depth+1))
	case k == 7:
		v = model.SexpV(c10Value(t, tab, textOK, depth+1))
	case k == 8:
		v = model.StructV(model.Field{Name: sym(), Val: c10Value(t, tab, textOK, depth+1)}, model.Field{Name: sym(), Val: model.Int64V(1)})
	default:
		// a symbol-table-shaped struct below the top level is user data
		inner := model.StructV(model.Field{Name: model.S("symbols"), Val: model.ListV(model.StrV("ghost"))})
		inner.Ann = []model.Sym{model.S("$ion_symbol_table")}
		v = model.ListV(inner, model.SymV(sym()))
	}
	if gen.Chance(t, 30) {
		v.Ann = append([]model.Sym{sym()}, v.Ann...)
		if depth == 0 && v.Kind == model.Struct && v.Ann[0].Known && v.Ann[0].Text == "$ion_symbol_table" {
			v.Ann[0] = model.S("name")
		}
	}
	if depth == 0 && gen.IsSystemValue(v) {
		v.Ann = append([]model.Sym{model.S("name")}, v.Ann...)
	}
	if depth == 0 && gen.Chance(t, 6) {
		// a top-level struct shaped like a symbol table whose marker annotation
		// is not the first one: user data, the context stays as it is
		v = model.StructV(model.Field{Name: model.S("symbols"), Val: model.ListV(model.StrV("decoy1"), model.StrV("decoy2"))},
			model.Field{Name: model.S("imports"), Val: model.SymV(model.S("$ion_symbol_table"))})
		v.Ann = []model.Sym{model.S(gen.Pick(t, []string{"name", "version", "$ion", "symbols"})), model.S("$ion_symbol_table")}
		if gen.Chance(t, 30) {
			v.Ann = append(v.Ann, model.S("$ion_symbol_table"))
		}
	}
	return v
}

func genC10(t *rapid.T) C10Case {
	c := c10History(t, true, true)
	c.Via = gen.Pick(t, []int{0, 0, 0, 1, 2, 3})
	return c
}

// c10History draws a history. undefinedIDs: symbols with unknown text may use
// the ID of a placeholder slot (not only $0). allowError: the history may end
// in an unresolvable import.
func c10History(t *rapid.T, undefinedIDs, allowError bool) C10Case {
	c := C10Case{Binary: gen.Chance(t, 50)}
	c.Catalog = c10Catalog(t)
	cat := refCatalog(c.Catalog)
	ch := gen.RapidChooser{T: t}
	enc := refbin.NewEnc(ch)
	applyEncoderExclusions(enc)
	enc.UndefinedSlots = undefinedIDs
	enc.LSTOpenContent = gen.Chance(t, 30)
	pr := reftext.NewPrinter(ch)
	applyPrinterExclusions(pr)
	pr.SIDOneIn = 2
	pr.UndefinedSlots = undefinedIDs
	pr.Off["lst.declared"] = true
	pr.Begin()
	bin := append([]byte{}, refbin.IVM...)
	cur := refbin.NewSystemTab()
	var expVals []model.Value
	var expMax []int
	var events bytes.Buffer
	n := gen.Range(t, 2, 12)
	for i := 0; i < n && !c.ExpectError; i++ {
		switch k := gen.Intn(t, 12); {
		case k == 0:
			cur = refbin.NewSystemTab()
			c.Changes++
			events.WriteString("IVM; ")
			bin = append(bin, refbin.IVM...)
			pr.Raw("$ion_1_0")
			pr.SetTable(cur)
		case k <= 3:
			// replacing table
			var imps []refbin.Import
			ni := gen.Pick(t, []int{0, 0, 1, 1, 2})
			for j := 0; j < ni; j++ {
				imp := refbin.Import{Name: gen.Pick(t, []string{"t1", "t2", "shared", "missing"}), Version: gen.Pick(t, []int{1, 2, 3, 1, 2, 3, 5, 9, 10, 11, 100, 101}), MaxID: -1}
				exact := cat.Exact(imp.Name, imp.Version)
				switch gen.Intn(t, 6) {
				case 0:
					// no max_id: legal only with an exact match
					if exact == nil && !(allowError && gen.Chance(t, 25)) {
						imp.MaxID = gen.Range(t, 0, 4)
					}
				case 1:
					imp.MaxID = 0
				case 2:
					if exact != nil {
						imp.MaxID = len(exact.Slots)
					} else {
						imp.MaxID = gen.Range(t, 1, 3)
					}
				default:
					imp.MaxID = gen.Range(t, 0, 7)
				}
				imps = append(imps, imp)
			}
			locals := c10Slots(t)
			next, err := refbin.BuildLocal(imps, locals, cat)
			extra := gen.Chance(t, 15)
			bin = enc.LST(bin, imps, locals, false)
			pr.LST(imps, locals, false, extra)
			fmt.Fprintf(&events, "LST{imports:%v symbols:%v}; ", imps, locals)
			if err != nil {
				c.ExpectError = true
				events.WriteString("(unresolvable) ")
				break
			}
			cur = next
			c.Changes++
			pr.SetTable(cur)
		case k <= 5:
			locals := c10Slots(t)
			cur = cur.Append(locals)
			c.Changes++
			bin = enc.LST(bin, nil, locals, true)
			pr.LST(nil, locals, true, false)
			pr.SetTable(cur)
			fmt.Fprintf(&events, "LST-append{%v}; ", locals)
		default:
			v := c10Value(t, cur, !c.Binary, 0)
			if c.Binary {
				var err error
				bin, err = enc.Value(bin, v, cur)
				if err != nil {
					harnessBug("C10 generator: value not encodable against the running table: %v", err)
				}
			} else {
				pr.Top(v)
			}
			expVals = append(expVals, v)
			expMax = append(expMax, cur.MaxID())
			fmt.Fprintf(&events, "value %s; ", v.String())
		}
	}
	if c.ExpectError {
		// something after the failing table, so that a reader that ignored the
		// problem would be seen to continue
		bin = append(bin, 0x71, 0x04)
		pr.Raw("name")
	}
	if c.Binary {
		c.Doc = bin
	} else {
		c.Doc = pr.Bytes()
	}
	c.Events = events.String()
	// self-check: the reference decoder must agree with the running model
	exp := c10Reference(c)
	if c.ExpectError {
		if exp.err == nil {
			harnessBug("C10 generator: reference decoder accepts an unresolvable import\nhistory: %s\ndoc: %s", c.Events, showDoc(c.Doc))
		}
	} else {
		if exp.err != nil {
			harnessBug("C10 generator: reference decoder rejects the generated history: %v\nhistory: %s\ndoc: %s", exp.err, c.Events, showDoc(c.Doc))
		}
		if d := model.DiffSeq(expVals, exp.vals); d != "" {
			harnessBug("C10 generator: reference decoder disagrees with the running model: %s\nhistory: %s\ndoc: %s", d, c.Events, showDoc(c.Doc))
		}
		if m := c10MaxIDs(c); fmt.Sprint(m) != fmt.Sprint(expMax) && len(expMax) > 0 {
			harnessBug("C10 generator: reference max_ids %v differ from the running model %v\nhistory: %s", m, expMax, c.Events)
		}
	}
	return c
}

func TestC10(t *testing.T) {
	p := Prop[C10Case]{ID: "C10", Sub: "context", Gen: genC10, Run: runC10, Quick: 15000, Thorough: 300000}
	RunProp(t, p)
}

func init() {
	Describe("C10",
		"cases: a history of 2-12 events drawn from {version marker, replacing local symbol table (0-2 imports by name/version with max_id absent / 0 / exact / smaller / larger, names present in the catalog at the exact, a newer, an older or no version; 0-4 local symbols incl. duplicates and undefined slots; optional open content and field order), appending table (imports:$ion_symbol_table), user value whose symbols / field names / annotations are drawn from the table in force (by any of the IDs carrying the text, or an undefined slot, or $0), a symbol-table-shaped struct nested in a list, a top-level one whose $ion_symbol_table annotation is not the first} rendered in binary (reference encoder) or text (reference printer, 50% of symbols as $n), with a catalog of 0-3 shared tables in 1-2 versions (gaps allowed), handed to the reader through NewReaderCat (half) or System.NewReader / NewReaderBytes / NewReaderString. Non-trivial: at least two context changes and at least one symbol read. Distinct by digest(bytes, catalog).",
		"oracle: reference model: the reference decoder's resolution of the same bytes (cross-checked in the generator against a running ID-space model; a disagreement aborts with exit 2); ion-go must return the same values (symbol, field-name and annotation text; unknown text where the slot is undefined), the same number of user values (tables and markers never surface, a nested table-shaped struct does), Reader.SymbolTable().MaxID() equal to the model's after every value, and an error exactly when an import has no usable max_id and no exact catalog match",
		"not generated (spec undecided / ion-go documents an error): duplicate imports or symbols fields, typed nulls in table fields (C06), max_id above 2^24, versions above 3",
	)
}
