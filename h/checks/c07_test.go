package checks

import (
	"fmt"
	"regexp"
	"strings"
	"testing"

	"github.com/amzn/ion-go/ion"
	"pgregory.net/rapid"

	"verif/h/drive"
	"verif/h/gen"
	"verif/h/model"
	"verif/h/refbin"
	"verif/h/reftext"
)

// C07 — malformed input ends in an error, and the error is permanent.

// C07Case is one edited document. Op/Pos only describe how it was made.
type C07Case struct {
	Doc []byte `json:"doc"`
	Op  string `json:"op"`
	Pos int    `json:"pos"`
}

// refVerdict classifies a document with the strict reference decoder.
// witness=true: the reference rejects it for a reason the property lists.
func refVerdict(doc []byte) (witness bool, reason string) {
	var err error
	if isBinaryDoc(doc) {
		_, err = refbin.Decode(doc, refbin.Options{})
	} else {
		if len(doc) >= 1 && doc[0] == 0xE0 {
			// would be sniffed as text by ion-go but is no sensible text either;
			// a broken version marker is outside the catalogue
			return false, "broken version marker"
		}
		_, err = reftext.Parse(doc, reftext.Options{})
	}
	if err == nil {
		return false, "valid"
	}
	var msg string
	switch e := err.(type) {
	case *refbin.Error:
		if e.Kind == refbin.Unsupported {
			return false, "undecided: " + e.Msg
		}
		if e.InLST && e.Kind != refbin.Truncated {
			return false, "inside-symbol-table: content of a symbol-table struct that a reader may skip unvalidated"
		}
		msg = e.Msg
	case *reftext.Error:
		if e.Kind == reftext.Unsupported {
			return false, "undecided: " + e.Msg
		}
		if e.InLST && e.Kind != reftext.Truncated {
			return false, "inside-symbol-table: content of a symbol-table struct that a reader may skip unvalidated"
		}
		msg = e.Msg
	default:
		return false, "other: " + err.Error()
	}
	for _, b := range c07NotWitness {
		if strings.Contains(msg, b) {
			return false, "not-in-catalogue: " + b
		}
	}
	return true, msg
}

// c07NotWitness are reference rejections that are not used as witnesses: the
// property's list does not name them (symbol-table semantics are C10's
// subject), or ion-go's documented behaviour differs deliberately.
var c07NotWitness = []string{
	"above max_id", "out of range of the symbol table", "symbol ID", // symbol resolution: C10
	"sorted struct fields out of order", // readers need not verify the order
	"import ",                           // catalog / import resolution: C10
	"input is not valid UTF-8",          // text: only binary string bytes are listed
	"underscore in exponent",            // undecided offline (DESIGN 9.4)
	"stream does not begin with a version marker",
	"malformed version marker",
	"version marker inside a container", // E0 as a wrapper with a bad body is covered by the wrapper rules
}

var digitsRE = regexp.MustCompile(`[0-9]+`)
var nullRE = regexp.MustCompile(`null\.\w*`)
var escRE = regexp.MustCompile(`unknown escape.*`)
var quotedRE = regexp.MustCompile(`'[^']*'|"[^"]*"`)

func reasonClass(reason string) string {
	r := digitsRE.ReplaceAllString(reason, "N")
	r = quotedRE.ReplaceAllString(r, "'c'")
	r = nullRE.ReplaceAllString(r, "null.X")
	r = escRE.ReplaceAllString(r, "unknown escape")
	if i := strings.Index(r, "out of range:"); i > 0 {
		r = r[:i+12]
	}
	if i := strings.Index(r, ": ["); i > 0 {
		r = r[:i]
	}
	if len(r) > 60 {
		r = r[:60]
	}
	return "ref-rejects: " + r
}

// c07Traverse enters every container and reads every scalar. An accessor error
// does not stop it. Returns whether any call reported an error, and the number
// of values seen.
func c07Traverse(r ion.Reader) (sawErr bool, n int, detail string) {
	var firstErr error
	var walk func(depth int)
	walk = func(depth int) {
		for {
			ok := r.Next()
			if e := r.Err(); e != nil && firstErr == nil {
				firstErr = e
			} else if firstErr != nil && detail == "" {
				// the reader has failed: it must stay failed, also across the
				// StepOut calls that unwind the traversal
				if ok {
					detail = fmt.Sprintf("Next() returned true (a %v) after Err() had become %q", r.Type(), firstErr)
				} else if e == nil {
					detail = fmt.Sprintf("Err() went back to nil after it had been %q", firstErr)
				} else if e != firstErr && e.Error() != firstErr.Error() {
					detail = fmt.Sprintf("Err() changed from %q to %q", firstErr, e)
				}
			}
			if !ok {
				return
			}
			n++
			if n > 1<<20 {
				return
			}
			t := r.Type()
			if _, err := r.Annotations(); err != nil {
				sawErr = true
			}
			if r.IsInStruct() {
				if _, err := r.FieldName(); err != nil {
					sawErr = true
				}
			}
			switch t {
			case ion.ListType, ion.SexpType, ion.StructType:
				if r.IsNull() {
					continue
				}
				if err := r.StepIn(); err != nil {
					sawErr = true
					continue
				}
				walk(depth + 1)
				if err := r.StepOut(); err != nil {
					sawErr = true
					return
				}
			default:
				if _, err := drive.ObserveCurrent(r); err != nil {
					sawErr = true
				}
			}
		}
	}
	walk(0)
	return
}

func runC07(c C07Case) string {
	st := Stat("C07")
	witness, reason := refVerdict(c.Doc)
	format := "text"
	if isBinaryDoc(c.Doc) {
		format = "binary"
	}
	if !witness {
		st.Discard(strings.SplitN(reason, ":", 2)[0])
		return ""
	}
	nt := c.Pos > 0 && c.Pos < len(c.Doc)
	st.Eval(nt, model.DigestBytes("c07", c.Doc), "format."+format, "op."+c.Op, reasonClass(reason))
	st.Sample(func() string {
		return fmt.Sprintf("op=%s at %d: %s  (reference: %s)", c.Op, c.Pos, showDoc(c.Doc), reason)
	})
	return drive.Guard2(func() string {
		r := ion.NewReaderBytes(c.Doc)
		_, n, detail := c07Traverse(r)
		if detail != "" {
			return fmt.Sprintf("malformed %s input (%s): %s\nedit: %s at %d\ndoc: %s", format, reason, detail, c.Op, c.Pos, showDoc(c.Doc))
		}
		err := r.Err()
		if err == nil {
			return fmt.Sprintf("malformed %s input (%s) was traversed to the end with Err()==nil after %d values\nedit: %s at %d\ndoc: %s", format, reason, n, c.Op, c.Pos, showDoc(c.Doc))
		}
		for i := 0; i < 5; i++ {
			if r.Next() {
				return fmt.Sprintf("Next() returned true after the reader failed with %q\nedit: %s at %d\ndoc: %s", err, c.Op, c.Pos, showDoc(c.Doc))
			}
			e2 := r.Err()
			if e2 == nil {
				return fmt.Sprintf("Err() went back to nil after the reader failed with %q (Next call %d)\nedit: %s at %d\ndoc: %s", err, i+1, c.Op, c.Pos, showDoc(c.Doc))
			}
			if e2 != err && e2.Error() != err.Error() {
				return fmt.Sprintf("Err() changed from %q to %q after further Next calls\nedit: %s at %d\ndoc: %s", err, e2, c.Op, c.Pos, showDoc(c.Doc))
			}
		}
		return ""
	})
}

// ---- edit catalogue

var c07TextAlphabet = []byte("\"'\\{}[]():,._-+01eEdTZ/*\nq xu$#\x00\x01\x7f")
var c07BinValues = []byte{0x00, 0x01, 0x0E, 0x0F, 0x1F, 0x20, 0x30, 0x31, 0x3F, 0x4F, 0x41, 0x47, 0x61, 0x6F, 0x7F, 0x80, 0x81, 0x8D, 0x98, 0xA0, 0xBC, 0xBD, 0xC0, 0xD0, 0xD1, 0xDE, 0xE0, 0xE1, 0xE2, 0xE3, 0xEE, 0xEF, 0xF0, 0xFF}

// edits enumerates every edit of the catalogue on base.
func c07Edits(base []byte, yield func(C07Case) bool) bool {
	mk := func(op string, pos int, doc []byte) bool { return yield(C07Case{Doc: doc, Op: op, Pos: pos}) }
	n := len(base)
	bin := isBinaryDoc(base)
	lo := 0
	if bin {
		lo = 4
	}
	for i := lo; i < n; i++ {
		if !mk("truncate", i, append([]byte{}, base[:i]...)) {
			return false
		}
	}
	for i := lo; i < n; i++ {
		d := append(append([]byte{}, base[:i]...), base[i+1:]...)
		if !mk("delete-byte", i, d) {
			return false
		}
		d = append(append(append([]byte{}, base[:i]...), base[i]), base[i:]...)
		if !mk("duplicate-byte", i, d) {
			return false
		}
	}
	if bin {
		for i := 4; i < n; i++ {
			b := base[i]
			vals := append([]byte{}, c07BinValues...)
			vals = append(vals, b+1, b-1, b^0x80, b^0x40)
			for l := 0; l < 16; l++ {
				vals = append(vals, b&0xF0|byte(l))
			}
			for _, v := range []byte{0, 13, 24, 32, 60, 61} {
				vals = append(vals, b&0x80|v)
			}
			seen := map[byte]bool{b: true}
			for _, v := range vals {
				if seen[v] {
					continue
				}
				seen[v] = true
				d := append([]byte{}, base...)
				d[i] = v
				if !mk("replace-byte", i, d) {
					return false
				}
			}
			for _, v := range []byte{0x00, 0x80, 0xFF, 0x0F, 0xE0, 0x21} {
				d := append(append(append([]byte{}, base[:i]...), v), base[i:]...)
				if !mk("insert-byte", i, d) {
					return false
				}
			}
		}
		for _, tok := range c07BinTokens() {
			for i := 4; i <= n; i++ {
				d := append(append(append([]byte{}, base[:i]...), tok...), base[i:]...)
				if !mk("insert-invalid-value", i, d) {
					return false
				}
			}
		}
		return true
	}
	for i := 0; i <= n; i++ {
		for _, v := range c07TextAlphabet {
			if i < n && base[i] != v {
				d := append([]byte{}, base...)
				d[i] = v
				if !mk("replace-char", i, d) {
					return false
				}
			}
			d := append(append(append([]byte{}, base[:i]...), v), base[i:]...)
			if !mk("insert-char", i, d) {
				return false
			}
		}
	}
	for _, ins := range c07TextTokens {
		for i := 0; i <= n; i++ {
			d := append(append(append([]byte{}, base[:i]...), ins...), base[i:]...)
			if !mk("insert-token", i, d) {
				return false
			}
		}
	}
	return true
}

// c07TextTokens are malformed text fragments inserted at every position.
var c07TextTokens = []string{"::", "\\q", "\\x4", "\\u12", "''", "'''", "{{", "}}", "/*", "//", ",,", "00", "__", "1.5.2", "null.foo", "2001-02-30", "2001-13-01T", "2001-01-01T24:00Z", "2001-01-01T00:60Z", "2001-01-01T00:00:60Z", "2001-01-01T00:00", "+inf1", "0x", "0b2", "1e", "1d+", "\\\n", "\\uDC00", "\\uD83D", "\\uD83D\\u0041", "\"\\uDE00\"", "'\\uD800'", "\\U0000D800", "\\U0000dfff", "\\U0000DBFF\\uDC00", "\\uD83D\\U0000DE00", "\\U00110000", "\\U0011", "\\UFFFFFFFF", "\\U0000D83D\\U0000DE00", "2001-02-03T04:05+01:60", "2001-02-03T04:05:06-24:00", "2001-02-03T04:05:06.5+24:00", "2001-02-03T04:05-00:60", "2001-02-03T04:05+1:00", "2001-02-03T04:05+0100", "\\u0041", "\\U00000041", "\\u00e9", "2001-01-01T00:00:00.5", "2001-01-01T00:00:00.123456789", "2001-01-01T00:00:00."}

// c07BinTokens are complete but invalid binary values (the property's list:
// negative zero of every width, illegal tag/length pairs, impossible calendar
// fields, malformed wrappers, non-UTF-8 strings, a version marker in a wrapper).
func c07BinTokens() [][]byte {
	var out [][]byte
	add := func(b ...byte) { out = append(out, b) }
	// negative zero: L = 0..13, and L = 14 with VarUInt lengths 14..20
	for l := 0; l <= 13; l++ {
		add(append([]byte{0x30 | byte(l)}, make([]byte, l)...)...)
	}
	for l := 14; l <= 20; l++ {
		add(append([]byte{0x3E, 0x80 | byte(l)}, make([]byte, l)...)...)
	}
	// bool with L in 2..14, float with a length other than 0/4/8
	for l := 2; l <= 13; l++ {
		add(append([]byte{0x10 | byte(l)}, make([]byte, l)...)...)
	}
	for _, l := range []int{1, 2, 3, 5, 6, 7, 9, 10, 13} {
		add(append([]byte{0x40 | byte(l)}, make([]byte, l)...)...)
	}
	add(0xF0)
	add(0xF1, 0x00)
	add(0xEF)
	// timestamps (offset 0 = 0x80): impossible fields
	ts := func(f ...byte) { add(append([]byte{0x60 | byte(len(f)+1), 0x80}, f...)...) }
	y := []byte{0x0F, 0xE5}                                                         // 2021
	ts(append(append([]byte{}, y...), 0x80)...)                                     // month 0
	ts(append(append([]byte{}, y...), 0x8D)...)                                     // month 13
	ts(append(append([]byte{}, y...), 0x81, 0x80)...)                               // day 0
	ts(append(append([]byte{}, y...), 0x81, 0xA0)...)                               // day 32
	ts(append(append([]byte{}, y...), 0x82, 0x9D)...)                               // 2021-02-29
	ts(append(append([]byte{}, y...), 0x82, 0x9E)...)                               // 02-30
	ts(append(append([]byte{}, y...), 0x84, 0x9F)...)                               // 04-31
	ts(append(append([]byte{}, y...), 0x81, 0x81, 0x98, 0x80)...)                   // hour 24
	ts(append(append([]byte{}, y...), 0x81, 0x81, 0x80, 0xBC)...)                   // minute 60
	ts(append(append([]byte{}, y...), 0x81, 0x81, 0x80, 0x80, 0xBC)...)             // second 60
	ts(append(append([]byte{}, y...), 0x81, 0x81, 0x80)...)                         // hour without minute
	ts(append(append([]byte{}, y...), 0x81, 0x81, 0x80, 0x80, 0x80, 0x80, 0x01)...) // fraction 1d0 >= 1
	ts(append(append([]byte{}, y...), 0x81, 0x81, 0x80, 0x80, 0x80, 0xC1, 0x81)...) // fraction -1d-1
	ts(0x80)                                                                        // year 0
	// fractions of one second or more with more than nine digits (year 1, so
	// that the body stays within 13 bytes)
	ts(0x81, 0x81, 0x81, 0x80, 0x80, 0x80, 0xCA, 0x02, 0xDF, 0xDC, 0x1C, 0x35) // 12345678901 d-10
	ts(0x81, 0x81, 0x81, 0x80, 0x80, 0x80, 0xCA, 0x02, 0x54, 0x0B, 0xE4, 0x00) // 10^10 d-10
	ts(0x81, 0x81, 0x81, 0x80, 0x80, 0x80, 0xCB, 0x17, 0x48, 0x76, 0xE8, 0x01) // 10^11+1 d-11
	// timestamp fields of 2^64-1 (minute, second) and offsets of 24 hours and more
	add(0x6E, 0x90, 0x80, 0x0F, 0xD7, 0x81, 0x81, 0x85, 0x01, 0x7F, 0x7F, 0x7F, 0x7F, 0x7F, 0x7F, 0x7F, 0x7F, 0xFF)
	add(0x6E, 0x91, 0x80, 0x0F, 0xD7, 0x81, 0x81, 0x85, 0x85, 0x01, 0x7F, 0x7F, 0x7F, 0x7F, 0x7F, 0x7F, 0x7F, 0x7F, 0xFF)
	add(0x68, 0x0B, 0xA0, 0x0F, 0xD7, 0x81, 0x81, 0x85, 0x85) // offset +1440
	add(0x68, 0x4B, 0xA0, 0x0F, 0xD7, 0x81, 0x81, 0x85, 0x85) // offset -1440
	add(0x68, 0x0B, 0xDC, 0x0F, 0xD7, 0x81, 0x81, 0x85, 0x85) // offset +1500
	// lengths and IDs of 2^64 and more in ten VarUInt bytes (they do not fit the
	// reader's 64 bits and must not be taken modulo 2^64), followed by as many bytes
	// as the truncated number asks for
	add(0x8E, 0x02, 0x80|0x00, 'h') // two-byte form is fine; the next ones are not
	add(append([]byte{0x8E, 0x02, 0, 0, 0, 0, 0, 0, 0, 0, 0x85}, "hello"...)...)
	add(append([]byte{0xBE, 0x03, 0, 0, 0, 0, 0, 0, 0, 0, 0x82}, 0x20, 0x20)...)
	add(0x7E, 0x7F, 0, 0, 0, 0, 0, 0, 0, 0, 0x81, 0x04)
	add(0xE4, 0x81, 0x02, 0, 0, 0, 0, 0, 0, 0, 0, 0x84, 0x20)
	// UTC fields in range, but the offset carries the local date off the calendar
	// (local year 10000 / 0); and the same through a fraction that rounds up
	add(0x67, 0xBC, 0x4E, 0x8F, 0x8C, 0x9F, 0x97, 0x9E)       // 9999-12-31T23:30 UTC, offset +60
	add(0x66, 0xFC, 0x81, 0x81, 0x81, 0x80, 0x9E)             // 0001-01-01T00:30 UTC, offset -60
	add(0x68, 0xBC, 0x4E, 0x8F, 0x8C, 0x9F, 0x97, 0x9E, 0x80) // the same at second precision
	// annotation wrappers
	add(0xE0) // lone E0 followed by whatever comes next
	add(0xE1, 0x81)
	add(0xE2, 0x81, 0x84)
	add(0xE3, 0x80, 0x84, 0x20)                   // annot_length 0
	add(0xE3, 0x82, 0x84, 0x84)                   // annot_length leaves no room
	add(0xE3, 0x81, 0x84, 0x00)                   // wrapper around NOP
	add(0xE4, 0x81, 0x84, 0x01, 0x00)             // wrapper around a NOP pad of length 1
	add(0xE6, 0x81, 0x84, 0xE3, 0x81, 0x84, 0x20) // nested wrapper
	add(0xE4, 0x81, 0x84, 0x21, 0x01, 0x20)       // wrapper shorter than its value + trailing
	add(0xE4, 0x81, 0x84, 0x20)                   // wrapper longer than its value (overruns or swallows)
	add(0xE6, 0x81, 0x84, 0xE0, 0x01, 0x00, 0xEA) // version marker inside a wrapper
	add(0xB4, 0xE0, 0x01, 0x00, 0xEA)             // version marker inside a list
	add(0xD1, 0x80)                               // sorted struct of length 0
	add(0xD2, 0x84, 0x21)                         // struct: value overruns
	add(0xD1, 0x84)                               // struct ends after the field ID (as sorted: length 4 follows)
	add(0xD2, 0x84, 0x84)                         // field ID, then "string of length 4" overrunning
	add(0xB2, 0x21)                               // list: int of length 1 has no room
	add(0xC3, 0x22, 0x01)                         // sexp: int of length 2, one byte left
	// strings that are not UTF-8
	add(0x82, 0xC0, 0x80)
	add(0x83, 0xED, 0xA0, 0x80)
	add(0x81, 0xFF)
	add(0x82, 0xE2, 0x82)
	add(0x84, 0xF4, 0x90, 0x80, 0x80)
	add(0x81, 0x80)
	// lengths overrunning the input
	add(0x8E, 0xFF)
	add(0x2E, 0x90)
	add(0xBE, 0x01, 0xFF)
	return out
}

// c07Bases are the fixed base documents (both formats), small enough that the
// whole catalogue is applied at every position.
func c07Bases(n int) [][]byte {
	texts := []string{
		"1", "a", "[1, 2]", "{a: 1, b: [x, y]}", "(a + 1 -inf)", "\"str\\n\" '''long''' '''er'''", "'quoted sym' a::b::3", "{{aGVsbG8=}} {{\"clob\"}} {{'''c''' '''d'''}}",
		"2001-02-03T04:05:06.789-08:00 2001T 2001-02T 2001-02-28", "1.5e10 1d-3 0x1F 0b101 1_000 12.5 -7", "/* c */ a // d\n b", "null null.int true false nan +inf",
		"{a: {b: {c: []}}, \"s\": (1), '''l''': 2}", "\"\\uD83D\\uDE00\" '\\uD83D\\uDE00' '''\\uD83D\\uDE00'''", "$ion_symbol_table::{symbols:[\"s\"]} $10 s::$10", "a::[1] b::(2) c::{d:3}", "[\"\\u00e9\\x41\\U0001F600\", 'a\\'b']",
	}
	var out [][]byte
	for _, s := range texts {
		out = append(out, []byte(s))
	}
	vals := [][]model.Value{
		{model.Int64V(1), model.Int64V(-300)},
		{model.ListV(model.Int64V(1), model.StrV("ab"), model.SexpV(model.BoolV(true)))},
		{model.StructV(model.Field{Name: model.S("name"), Val: model.StrV("x")}, model.Field{Name: model.S("f"), Val: model.ListV(model.Int64V(2))})},
		{model.Int64V(5).WithAnn(model.S("name")), model.StrV("héllo"), model.FloatV(1.5), model.FloatV(0.1)},
		{model.TSV(model.TS{Year: 2020, Month: 2, Day: 29, Hour: 23, Min: 59, Sec: 58, Nanos: 120000000, FracDigits: 2, Prec: model.PSecond, OffsetKnown: true, Offset: 60})},
		{model.TSV(model.TS{Year: 2021, Month: 6, Day: 30, Prec: model.PDay}), model.TSV(model.TS{Year: 2021, Month: 6, Day: 30, Hour: 1, Min: 2, Prec: model.PMinute})},
		{model.DecV(bigOf("12345"), -3, false), model.DecV(bigOf("0"), 2, true), model.SymV(model.S("sym")), model.SymV(model.S("name"))},
		{model.BlobV([]byte{1, 2, 3}), model.ClobV([]byte("abc")), model.NullOf(model.List), model.NullOf(model.Null), model.BoolV(false)},
		{model.StrV(strings.Repeat("s", 14)), model.ListV(model.StrV(strings.Repeat("t", 13)), model.Int64V(1))},
		{model.StructV(model.Field{Name: model.S("a"), Val: model.StructV(model.Field{Name: model.S("b"), Val: model.SexpV(model.Int64V(1), model.Int64V(2)).WithAnn(model.S("x"))})})},
	}
	for i, v := range vals {
		out = append(out, encodeDoc(v, nil).Doc)
		out = append(out, encodeDoc(v, &cycleChooser{k: i + 1}).Doc)
	}
	g := rapid.Custom(func(t *rapid.T) []byte { return c07Base(t, 120) })
	for i := 0; len(out) < n; i++ {
		out = append(out, g.Example(i+1))
	}
	return out
}

// c07Base draws a valid base document of at most max bytes (best effort).
func c07Base(t *rapid.T, max int) []byte {
	for try := 0; ; try++ {
		cfg := &gen.Cfg{MaxDepth: gen.Pick(t, []int{1, 2, 3}), AllowUnknown: false, Size: &gen.Size{}}
		vals := gen.SanitizeTop(gen.Seq(t, cfg, 3))
		var doc []byte
		switch gen.Intn(t, 5) {
		case 0, 1:
			doc = printDoc(vals, gen.RapidChooser{T: t}).Doc
		case 2, 3:
			doc = encodeDoc(vals, gen.RapidChooser{T: t}).Doc
		default:
			b, err := writeDoc(drive.Mode(gen.Intn(t, 3)), vals, nil)
			if err != nil {
				continue
			}
			doc = b
		}
		if len(doc) <= max || try > 4 {
			return doc
		}
	}
}

func genC07(t *rapid.T) C07Case {
	base := c07Base(t, 4000)
	// draw one edit of the catalogue by index
	var all []C07Case
	if len(base) <= 64 {
		c07Edits(base, func(c C07Case) bool { all = append(all, c); return true })
		if len(all) > 0 {
			return all[gen.Intn(t, len(all))]
		}
	}
	// larger documents: sample an edit directly
	n := len(base)
	if n == 0 {
		return C07Case{Doc: base, Op: "none"}
	}
	i := gen.Intn(t, n)
	if isBinaryDoc(base) && i < 4 {
		i = 4 % n
	}
	switch gen.Intn(t, 6) {
	case 5:
		var tok []byte
		if isBinaryDoc(base) {
			tok = gen.Pick(t, c07BinTokens())
		} else {
			tok = []byte(gen.Pick(t, c07TextTokens))
		}
		return C07Case{Doc: append(append(append([]byte{}, base[:i]...), tok...), base[i:]...), Op: "insert-token", Pos: i}
	case 0:
		return C07Case{Doc: append([]byte{}, base[:i]...), Op: "truncate", Pos: i}
	case 1:
		return C07Case{Doc: append(append([]byte{}, base[:i]...), base[i+1:]...), Op: "delete-byte", Pos: i}
	case 2:
		d := append([]byte{}, base...)
		if isBinaryDoc(base) {
			d[i] = gen.Pick(t, c07BinValues)
			if gen.Chance(t, 50) {
				d[i] = base[i]&0xF0 | byte(gen.Intn(t, 16))
			}
		} else {
			d[i] = gen.Pick(t, c07TextAlphabet)
		}
		return C07Case{Doc: d, Op: "replace-byte", Pos: i}
	case 3:
		var v byte
		if isBinaryDoc(base) {
			v = gen.Pick(t, c07BinValues)
		} else {
			v = gen.Pick(t, c07TextAlphabet)
		}
		return C07Case{Doc: append(append(append([]byte{}, base[:i]...), v), base[i:]...), Op: "insert-byte", Pos: i}
	default:
		// splice: cut a range
		j := i + gen.Range(t, 1, 8)
		if j > n {
			j = n
		}
		return C07Case{Doc: append(append([]byte{}, base[:i]...), base[j:]...), Op: "delete-range", Pos: i}
	}
}

func TestC07(t *testing.T) {
	p := Prop[C07Case]{ID: "C07", Sub: "malformed", Gen: genC07, Run: runC07, Quick: 20000, Thorough: 400000}
	bases := c07Bases(Scale(60, 400))
	EnumerateSharded(t, p, "catalogue-at-every-position", func(shard, nshards int, yield func(C07Case) bool) {
		for i, b := range bases {
			if i%nshards != shard {
				continue
			}
			if !c07Edits(b, yield) {
				return
			}
		}
	})
	RunProp(t, p)
}

func init() {
	Describe("C07",
		"cases: a valid base document (hand-written texts and reference binary encodings of every type, plus generated ones from the reference printer / encoder / ion-go's writers) x an edit: truncation at every offset, deletion / duplication of every byte, replacement of every byte by each value of a format-specific hostile alphabet (text: quotes, brackets, separators, digits, exponent / timestamp letters, escapes, control characters; binary: every L nibble, type-code flips, calendar values 0/13/24/32/60/61, 0x00/0x80/0xFF, version-marker and wrapper bytes), insertion of each alphabet value at every position, insertion of 40 malformed tokens (dangling ::, bad escapes, unterminated quotes / lobs / comments, doubled commas, leading zeros, bad underscores, 1.5.2, null.foo, impossible dates and times) at every position of the text bases. An edited document is a case only if the strict reference decoder rejects it for a reason in the property's list (edits that leave the document valid, or whose rejection is undecided / about symbol tables, are discarded and counted). Non-trivial: edit position strictly inside the document. Distinct by digest(edited bytes).",
		"oracle: differential with the strict reference decoder + validity: a traversal entering every container and reading every scalar must end with Err() != nil; five further Next() calls return false and Err() keeps returning the same error",
		"not used as witnesses: symbol IDs above max_id and import resolution (C10), unsorted sorted-structs, invalid UTF-8 in text outside binary strings, underscores in exponents, other Ion versions, constructs the reference marks Unsupported (DESIGN 9.4 'undecided')",
	)
}
