package checks

import (
	"bytes"
	"fmt"
	"math"
	"math/big"
	"strings"
	"testing"
	"testing/iotest"

	"github.com/amzn/ion-go/ion"
	"pgregory.net/rapid"

	"verif/h/drive"
	"verif/h/gen"
	"verif/h/model"
	"verif/h/refbin"
	"verif/h/reftext"
)

// C13 — numbers are never silently truncated, wrapped or rounded.

// ---- sub-check 1: integer accessors

type C13IntCase struct {
	Int  string `json:"int"`
	Form string `json:"form"` // text-dec text-hex text-bin bin-pad0..3 write-text write-pretty write-binary write-big-binary write-big-text
}

var c13Forms = []string{"text-dec", "text-hex", "text-bin", "bin-pad0", "bin-pad1", "bin-pad2", "bin-pad3", "write-text", "write-pretty", "write-binary", "write-big-binary", "write-big-text"}

var (
	minI32 = big.NewInt(math.MinInt32)
	maxI32 = big.NewInt(math.MaxInt32)
)

func intDoc(v *big.Int, form string) ([]byte, error) {
	abs := new(big.Int).Abs(v)
	sign := ""
	if v.Sign() < 0 {
		sign = "-"
	}
	switch form {
	case "text-dec":
		return []byte(v.String()), nil
	case "text-hex":
		return []byte(sign + "0x" + abs.Text(16)), nil
	case "text-bin":
		return []byte(sign + "0b" + abs.Text(2)), nil
	case "bin-pad0", "bin-pad1", "bin-pad2", "bin-pad3":
		pad := int(form[len(form)-1] - '0')
		mag := append(make([]byte, pad), abs.Bytes()...)
		b := append([]byte{}, refbin.IVM...)
		T := byte(0x20)
		if v.Sign() < 0 {
			T = 0x30
		}
		if len(mag) < 14 {
			b = append(b, T|byte(len(mag)))
		} else {
			b = append(b, T|14)
			b = refbin.VarUInt(b, uint64(len(mag)), 0)
		}
		return append(b, mag...), nil
	}
	mode := drive.Text
	picks := []int{0}
	switch form {
	case "write-pretty":
		mode = drive.Pretty
	case "write-binary":
		mode = drive.Binary
	case "write-big-binary":
		mode, picks = drive.Binary, []int{1}
	case "write-big-text":
		picks = []int{1}
	}
	return writeDoc(mode, []model.Value{model.IntV(v)}, picks)
}

func runC13Int(c C13IntCase) string {
	st := Stat("C13")
	v, ok := new(big.Int).SetString(c.Int, 10)
	if !ok {
		return "harness: bad int " + c.Int
	}
	if v.Sign() == 0 && strings.HasPrefix(c.Form, "bin-pad") && false {
		return ""
	}
	doc, err := intDoc(v, c.Form)
	if err != nil {
		st.Discard("writer_refused")
		return ""
	}
	st.Eval(gen.IsBoundaryInt(v), model.DigestBytes(c.Form, []byte(c.Int)), "int."+c.Form)
	st.Sample(func() string { return fmt.Sprintf("int %s as %s", clipStr(c.Int, 40), c.Form) })
	return drive.Guard2(func() string {
		r := ion.NewReaderBytes(doc)
		if len(doc)%3 == 0 {
			r = ion.NewReader(iotest.OneByteReader(bytes.NewReader(doc)))
		}
		if !r.Next() {
			return fmt.Sprintf("%s of %s: Next()=false err=%v doc=%q", c.Form, c.Int, r.Err(), clip(doc, 80))
		}
		if r.Type() != ion.IntType || r.IsNull() {
			return fmt.Sprintf("%s of %s: type %v null=%v", c.Form, c.Int, r.Type(), r.IsNull())
		}
		fits32 := v.Cmp(minI32) >= 0 && v.Cmp(maxI32) <= 0
		fits64 := v.IsInt64()
		size, err := r.IntSize()
		if err != nil {
			return fmt.Sprintf("IntSize error: %v", err)
		}
		switch size {
		case ion.Int32:
			if !fits32 {
				return fmt.Sprintf("IntSize=Int32 for %s which does not fit 32 bits", c.Int)
			}
		case ion.Int64:
			if !fits64 {
				return fmt.Sprintf("IntSize=Int64 for %s which does not fit 64 bits", c.Int)
			}
		case ion.BigInt:
		default:
			return fmt.Sprintf("IntSize=%v for non-null int %s", size, c.Int)
		}
		bi, err := r.BigIntValue()
		if err != nil || bi == nil || bi.Cmp(v) != 0 {
			return fmt.Sprintf("BigIntValue=%v,%v want %s (%s)", bi, err, c.Int, c.Form)
		}
		i64, err := r.Int64Value()
		if fits64 {
			if err != nil || i64 == nil || *i64 != v.Int64() {
				return fmt.Sprintf("Int64Value=%v,%v want %s (%s)", deref64(i64), err, c.Int, c.Form)
			}
		} else if err == nil {
			return fmt.Sprintf("Int64Value=%v without error for %s which does not fit 64 bits", deref64(i64), c.Int)
		}
		i, err := r.IntValue()
		if fits32 {
			if err != nil || i == nil || int64(*i) != v.Int64() {
				return fmt.Sprintf("IntValue=%v,%v want %s (%s)", derefInt(i), err, c.Int, c.Form)
			}
		} else if err == nil {
			return fmt.Sprintf("IntValue=%v without error for %s which does not fit 32 bits", derefInt(i), c.Int)
		}
		if r.Next() || r.Err() != nil {
			return fmt.Sprintf("after the int: Next()=true or err=%v", r.Err())
		}
		return ""
	})
}

func deref64(p *int64) interface{} {
	if p == nil {
		return nil
	}
	return *p
}
func derefInt(p *int) interface{} {
	if p == nil {
		return nil
	}
	return *p
}
func clipStr(s string, n int) string {
	if len(s) > n {
		return s[:n] + "..."
	}
	return s
}

// ---- sub-check 2: accessor x type x nullness matrix

type C13CellCase struct {
	Kind     int    `json:"kind"` // model.Kind of the value
	Null     bool   `json:"null"`
	Binary   bool   `json:"binary"`
	Accessor string `json:"accessor"`
}

var c13Accessors = []string{"BoolValue", "IntSize", "IntValue", "Int64Value", "BigIntValue", "FloatValue", "DecimalValue", "TimestampValue", "StringValue", "SymbolValue", "ByteValue"}

func exemplar(k model.Kind) model.Value {
	switch k {
	case model.Null:
		return model.NullOf(model.Null)
	case model.Bool:
		return model.BoolV(true)
	case model.Int:
		return model.Int64V(7)
	case model.Float:
		return model.FloatV(1.5)
	case model.Decimal:
		return model.DecV(big.NewInt(15), -1, false)
	case model.Timestamp:
		return model.TSV(model.TS{Year: 2020, Month: 2, Day: 3, Prec: model.PDay})
	case model.Symbol:
		return model.SymV(model.S("abc"))
	case model.String:
		return model.StrV("abc")
	case model.Clob:
		return model.ClobV([]byte("abc"))
	case model.Blob:
		return model.BlobV([]byte("abc"))
	case model.List:
		return model.ListV(model.Int64V(1))
	case model.Sexp:
		return model.SexpV(model.Int64V(1))
	}
	return model.StructV(model.Field{Name: model.S("f"), Val: model.Int64V(1)})
}

var accessorOwn = map[string][]model.Kind{
	"BoolValue": {model.Bool}, "IntSize": {model.Int}, "IntValue": {model.Int}, "Int64Value": {model.Int}, "BigIntValue": {model.Int},
	"FloatValue": {model.Float}, "DecimalValue": {model.Decimal}, "TimestampValue": {model.Timestamp}, "StringValue": {model.String},
	"SymbolValue": {model.Symbol}, "ByteValue": {model.Clob, model.Blob},
}

// callAccessor returns (isNil, err).
func callAccessor(r ion.Reader, name string) (bool, error) {
	switch name {
	case "BoolValue":
		v, err := r.BoolValue()
		return v == nil, err
	case "IntSize":
		v, err := r.IntSize()
		return v == ion.NullInt, err
	case "IntValue":
		v, err := r.IntValue()
		return v == nil, err
	case "Int64Value":
		v, err := r.Int64Value()
		return v == nil, err
	case "BigIntValue":
		v, err := r.BigIntValue()
		return v == nil, err
	case "FloatValue":
		v, err := r.FloatValue()
		return v == nil, err
	case "DecimalValue":
		v, err := r.DecimalValue()
		return v == nil, err
	case "TimestampValue":
		v, err := r.TimestampValue()
		return v == nil, err
	case "StringValue":
		v, err := r.StringValue()
		return v == nil, err
	case "SymbolValue":
		v, err := r.SymbolValue()
		return v == nil, err
	case "ByteValue":
		v, err := r.ByteValue()
		return v == nil, err
	}
	panic("unknown accessor " + name)
}

func runC13Cell(c C13CellCase) string {
	st := Stat("C13")
	k := model.Kind(c.Kind)
	v := exemplar(k)
	if c.Null {
		v = model.NullOf(k)
	}
	// documents come from the reference encoders, followed by a sentinel int
	vals := []model.Value{v, model.Int64V(42)}
	var doc []byte
	if c.Binary {
		doc = encodeDoc(vals, nil).Doc
	} else {
		doc = printDoc(vals, nil).Doc
	}
	own := false
	for _, o := range accessorOwn[c.Accessor] {
		own = own || o == k
	}
	st.Eval(!own || c.Null, model.DigestBytes(c.Accessor, []byte(fmt.Sprint(c.Kind, c.Null, c.Binary))), "cell")
	return drive.Guard2(func() string {
		r := ion.NewReaderBytes(doc)
		if len(doc)%3 == 0 {
			r = ion.NewReader(iotest.OneByteReader(bytes.NewReader(doc)))
		}
		if !r.Next() {
			return fmt.Sprintf("Next()=false err=%v", r.Err())
		}
		isNil, err := callAccessor(r, c.Accessor)
		desc := fmt.Sprintf("%s on %v (null=%v, binary=%v)", c.Accessor, k, c.Null, c.Binary)
		switch {
		case own && c.Null:
			if err != nil || !isNil {
				return fmt.Sprintf("%s: want (nil, nil), got nil=%v err=%v", desc, isNil, err)
			}
		case own:
			if err != nil || isNil {
				return fmt.Sprintf("%s: want a value, got nil=%v err=%v", desc, isNil, err)
			}
		default:
			if err == nil {
				return fmt.Sprintf("%s: want a usage error, got nil=%v err=nil", desc, isNil)
			}
			if !isNil {
				return fmt.Sprintf("%s: error %v but a non-nil value", desc, err)
			}
		}
		// the refused / answered call must not disturb the stream
		if r.Err() != nil {
			return fmt.Sprintf("%s: Err()=%v afterwards", desc, r.Err())
		}
		if !r.Next() {
			return fmt.Sprintf("%s: sentinel lost, err=%v", desc, r.Err())
		}
		if i, err := r.Int64Value(); err != nil || i == nil || *i != 42 {
			return fmt.Sprintf("%s: sentinel read as %v,%v", desc, deref64(i), err)
		}
		return ""
	})
}

// ---- sub-check 3: floats (32-bit storage only when lossless) and magnitudes

type C13MagCase struct {
	What string `json:"what"` // float, strlen, bloblen, decexp, sid, listlen
	Bits uint64 `json:"bits"` // float bits, or the magnitude
	Neg  bool   `json:"neg"`
}

func runC13Mag(c C13MagCase) string {
	st := Stat("C13")
	st.Sample(func() string { return fmt.Sprintf("%s magnitude/bits %#x neg=%v", c.What, c.Bits, c.Neg) })
	switch c.What {
	case "float":
		f := math.Float64frombits(c.Bits)
		f32exact := !math.IsNaN(f) && math.Float64bits(float64(float32(f))) == c.Bits
		st.Eval(true, model.DigestBytes("float", []byte(fmt.Sprint(c.Bits))), "float", map[bool]string{true: "float.f32-exact", false: "float.needs-64"}[f32exact])
		out, err := writeDoc(drive.Binary, []model.Value{model.FloatV(f)}, nil)
		if err != nil {
			st.Discard("writer_refused")
			return ""
		}
		if len(out) < 5 {
			return fmt.Sprintf("binary float output too short: % x", out)
		}
		body := out[4:]
		switch body[0] {
		case 0x44:
			if !math.IsNaN(f) && !f32exact {
				return fmt.Sprintf("float %016x stored in 32 bits although that is lossy: % x", c.Bits, body)
			}
		case 0x40, 0x48:
		default:
			return fmt.Sprintf("unexpected float encoding % x", body)
		}
		res, derr := refbin.Decode(out, refbin.Options{})
		if derr != nil || len(res.Values) != 1 || model.Diff(model.FloatV(f), res.Values[0]) != "" {
			return fmt.Sprintf("float %016x: reference decode of % x gives %v, %v", c.Bits, out, res.Values, derr)
		}
		for _, mode := range []drive.Mode{drive.Binary, drive.Text} {
			o2, err := writeDoc(mode, []model.Value{model.FloatV(f)}, nil)
			if err != nil {
				continue
			}
			got, rerr := drive.Observe(ion.NewReaderBytes(o2))
			if rerr != nil || len(got) != 1 || model.Diff(model.FloatV(f), got[0]) != "" {
				return fmt.Sprintf("float %016x via %v: read back %v, %v (output %q)", c.Bits, mode, got, rerr, clip(o2, 60))
			}
			// the same bytes delivered one per Read: every bit must still arrive
			got, rerr = drive.Observe(ion.NewReader(iotest.OneByteReader(bytes.NewReader(o2))))
			if rerr != nil || len(got) != 1 || model.Diff(model.FloatV(f), got[0]) != "" {
				return fmt.Sprintf("float %016x via %v, one byte per Read: read back %v, %v (output %q)", c.Bits, mode, got, rerr, clip(o2, 60))
			}
			if mode == drive.Binary && c.Bits%16 == 3 && len(o2) > 4 {
				// 1100 copies in one stream: some payload straddles a buffer refill
				long := append([]byte{}, o2[:4]...)
				for i := 0; i < 1100; i++ {
					long = append(long, o2[4:]...)
				}
				got, rerr = drive.Observe(ion.NewReaderBytes(long))
				if rerr != nil || len(got) != 1100 {
					return fmt.Sprintf("float %016x x 1100 in one binary stream: %d values, %v", c.Bits, len(got), rerr)
				}
				for i := range got {
					if model.Diff(model.FloatV(f), got[i]) != "" {
						return fmt.Sprintf("float %016x x 1100 in one binary stream: value %d reads back as %s", c.Bits, i, got[i].String())
					}
				}
			}
		}
		return ""
	case "strlen", "bloblen", "listlen":
		n := int(c.Bits)
		st.Eval(true, model.DigestBytes(c.What, []byte(fmt.Sprint(n))), c.What)
		var v model.Value
		switch c.What {
		case "strlen":
			v = model.StrV(strings.Repeat("x", n))
		case "bloblen":
			v = model.BlobV(bytes.Repeat([]byte{0xAB}, n))
		default:
			// list whose body is n bytes: n one-byte ints (0x20)
			es := make([]model.Value, n)
			for i := range es {
				es[i] = model.Int64V(0)
			}
			v = model.ListV(es...)
		}
		vals := []model.Value{v, model.Int64V(42)}
		out, err := writeDoc(drive.Binary, vals, nil)
		if err != nil {
			st.Discard("writer_refused")
			return ""
		}
		res, derr := refbin.Decode(out, refbin.Options{RequireIVM: true})
		if derr != nil {
			return fmt.Sprintf("%s %d: reference decoder rejects writer output: %v", c.What, n, derr)
		}
		if d := model.DiffSeq(vals, res.Values); d != "" {
			return fmt.Sprintf("%s %d: reference decoder: %s", c.What, n, d)
		}
		// and the reference encoding (both length forms) read by ion-go
		for _, ch := range []refbin.Chooser{nil, maxChooser{}} {
			dc := encodeDoc(vals, ch)
			got, rerr := drive.Observe(ion.NewReaderBytes(dc.Doc))
			if rerr != nil {
				return fmt.Sprintf("%s %d: reader fails on reference encoding: %v", c.What, n, rerr)
			}
			if d := model.DiffSeq(vals, got); d != "" {
				return fmt.Sprintf("%s %d: reader on reference encoding: %s", c.What, n, d)
			}
		}
		return ""
	case "decexp":
		e := int64(c.Bits)
		if c.Neg {
			e = -e
		}
		st.Eval(true, model.DigestBytes("decexp", []byte(fmt.Sprint(e))), "decexp")
		vals := []model.Value{model.DecV(big.NewInt(7), e, false), model.DecV(new(big.Int), e, true), model.Int64V(42)}
		for _, mode := range []drive.Mode{drive.Binary, drive.Text} {
			out, err := writeDoc(mode, vals, nil)
			if err != nil {
				st.Discard("writer_refused")
				continue
			}
			var rv []model.Value
			var derr error
			if mode == drive.Binary {
				var res *refbin.Result
				res, derr = refbin.Decode(out, refbin.Options{RequireIVM: true})
				rv = res.Values
			} else {
				var res *reftext.Result
				res, derr = reftext.Parse(out, reftext.Options{})
				rv = res.Values
			}
			if derr != nil {
				return fmt.Sprintf("decimal exponent %d (%v): reference decoder: %v", e, mode, derr)
			}
			if d := model.DiffSeq(vals, rv); d != "" {
				return fmt.Sprintf("decimal exponent %d (%v): reference decoder: %s", e, mode, d)
			}
			got, rerr := drive.Observe(ion.NewReaderBytes(out))
			if rerr != nil {
				return fmt.Sprintf("decimal exponent %d (%v): reader: %v", e, mode, rerr)
			}
			if d := model.DiffSeq(vals, got); d != "" {
				return fmt.Sprintf("decimal exponent %d (%v): reader: %s", e, mode, d)
			}
		}
		dc := encodeDoc(vals, &cycleChooser{k: 1})
		got, rerr := drive.Observe(ion.NewReaderBytes(dc.Doc))
		if rerr != nil || model.DiffSeq(vals, got) != "" {
			return fmt.Sprintf("decimal exponent %d: reader on reference encoding: %v %s", e, rerr, model.DiffSeq(vals, got))
		}
		return ""
	case "decexp-over":
		// a binary decimal whose exponent lies outside int32 cannot be represented
		// by ion.Decimal: the reader must refuse it, never hand out a wrapped exponent
		e := int64(c.Bits)
		if c.Neg {
			e = -e
		}
		st.Eval(true, model.DigestBytes("decexp-over", []byte(fmt.Sprint(e))), "decexp-over")
		for _, vals := range [][]model.Value{{model.DecV(big.NewInt(5), e, false)}, {model.ListV(model.DecV(big.NewInt(-12345), e, false), model.Int64V(1))}} {
			dc := encodeDoc(vals, nil)
			got, rerr := drive.Observe(ion.NewReaderBytes(dc.Doc))
			if rerr == nil {
				return fmt.Sprintf("binary decimal with exponent %d (outside int32) was read without error as %s\nbytes: % x", e, model.SeqString(got), dc.Doc)
			}
		}
		return ""
	case "dectext":
		// text decimals whose digits after the point push the exponent to (and
		// beyond) the lower end of the int32 range: exact, or refused
		st.Eval(true, model.DigestBytes("dectext", []byte(fmt.Sprint(c.Bits, c.Neg))), "dectext")
		frac := strings.Repeat("5", int(c.Bits%7)+1)
		for _, e := range []int64{math.MinInt32, math.MinInt32 + 1, math.MinInt32 + 2, math.MinInt32 + 5, math.MinInt32 + 8, -2147483600} {
			lit := fmt.Sprintf("1.%sd%d", frac, e)
			if c.Neg {
				lit = "-" + lit
			}
			res, perr := reftext.Parse([]byte(lit), reftext.Options{})
			if perr != nil || len(res.Values) != 1 {
				harnessBug("C13: reference parser on %q: %v", lit, perr)
			}
			got, rerr := drive.Observe(ion.NewReaderString(lit))
			if rerr == nil {
				if d := model.DiffSeq(res.Values, got); d != "" {
					return fmt.Sprintf("text decimal %s read without error as %s: %s", lit, model.SeqString(got), d)
				}
			}
			if pd, err := ion.ParseDecimal(lit); err == nil {
				if d := model.Diff(res.Values[0], model.Value{Kind: model.Decimal, Dec: drive.DecOf(pd)}); d != "" {
					return fmt.Sprintf("ParseDecimal(%q) = %s without error: %s", lit, pd.String(), d)
				}
			}
		}
		return ""
	case "sid":
		// a symbol whose ID is 9 + maxID + 1 through a fixed table with an
		// Adjust-ed import
		maxID := c.Bits
		st.Eval(true, model.DigestBytes("sid", []byte(fmt.Sprint(maxID))), "sid")
		imp := ion.NewSharedSymbolTable("big", 1, []string{"first"}).Adjust(maxID)
		lst := ion.NewLocalSymbolTable([]ion.SharedSymbolTable{imp}, []string{"target"})
		want := uint64(9) + maxID + 1
		if id, ok := lst.FindByName("target"); !ok || id != want {
			return fmt.Sprintf("fixed table: FindByName(target)=%d,%v want %d", id, ok, want)
		}
		var buf bytes.Buffer
		msg := drive.Guard2(func() string {
			w := ion.NewBinaryWriterLST(&buf, lst)
			if err := w.WriteSymbol(ion.NewSymbolTokenFromString("target")); err != nil {
				return "write: " + err.Error()
			}
			if err := w.FieldName(ion.NewSymbolTokenFromString("target")); err == nil {
				return "FieldName outside a struct accepted"
			}
			return ""
		})
		_ = msg
		buf.Reset()
		var werr error
		msg = drive.Guard2(func() string {
			w := ion.NewBinaryWriterLST(&buf, lst)
			if werr = w.BeginStruct(); werr != nil {
				return ""
			}
			if werr = w.FieldName(ion.NewSymbolTokenFromString("target")); werr != nil {
				return ""
			}
			if werr = w.Annotation(ion.NewSymbolTokenFromString("target")); werr != nil {
				return ""
			}
			if werr = w.WriteSymbol(ion.NewSymbolTokenFromString("target")); werr != nil {
				return ""
			}
			if werr = w.EndStruct(); werr != nil {
				return ""
			}
			werr = w.Finish()
			return ""
		})
		if msg != "" {
			return msg
		}
		if werr != nil {
			st.Discard("writer_refused")
			return ""
		}
		out := buf.Bytes()
		// the stream ends with: D? <VarUInt field id> E? <annot len> <VarUInt annot id> 7L <UInt sid>
		l := int(uintLenRef(want))
		if len(out) < l+1 || out[len(out)-l-1] != 0x70|byte(l) {
			return fmt.Sprintf("sid %d: output does not end with a %d-byte symbol value: % x", want, l, clip(out[max0(len(out)-24):], 24))
		}
		var got uint64
		for _, b := range out[len(out)-l:] {
			got = got<<8 | uint64(b)
		}
		if got != want {
			return fmt.Sprintf("sid %d: symbol value encodes %d", want, got)
		}
		// read back with the catalog: all three uses resolve to "target"
		vals, rerr := drive.Observe(ion.NewReaderCat(bytes.NewReader(out), ion.NewCatalog(ion.NewSharedSymbolTable("big", 1, []string{"first"}))))
		wantV := model.StructV(model.Field{Name: model.S("target"), Val: model.SymV(model.S("target")).WithAnn(model.S("target"))})
		if rerr != nil {
			return fmt.Sprintf("sid %d: reader: %v", want, rerr)
		}
		if d := model.DiffSeq([]model.Value{wantV}, vals); d != "" {
			return fmt.Sprintf("sid %d: reader: %s", want, d)
		}
		if maxID <= 1<<20 {
			res, derr := refbin.Decode(out, refbin.Options{RequireIVM: true, Catalog: refbin.Catalog{{Name: "big", Version: 1, Slots: []refbin.Slot{refbin.K("first")}}}})
			if derr != nil {
				return fmt.Sprintf("sid %d: reference decoder: %v", want, derr)
			}
			if d := model.DiffSeq([]model.Value{wantV}, res.Values); d != "" {
				return fmt.Sprintf("sid %d: reference decoder: %s", want, d)
			}
		}
		return ""
	}
	return "harness: unknown magnitude check " + c.What
}

func max0(x int) int {
	if x < 0 {
		return 0
	}
	return x
}

func uintLenRef(v uint64) int {
	n := 0
	for v > 0 {
		n++
		v >>= 8
	}
	if n == 0 {
		n = 1
	}
	return n
}

func genC13Int(t *rapid.T) C13IntCase {
	return C13IntCase{Int: gen.BigInt(t).String(), Form: gen.Pick(t, c13Forms)}
}

func genC13Mag(t *rapid.T) C13MagCase {
	switch gen.Intn(t, 3) {
	case 0:
		return C13MagCase{What: "float", Bits: math.Float64bits(gen.Float(t))}
	case 1:
		return C13MagCase{What: gen.Pick(t, []string{"strlen", "bloblen", "listlen"}), Bits: uint64(gen.Pick(t, []int{gen.Range(t, 0, 300), gen.Range(t, 16000, 16800)}))}
	default:
		return C13MagCase{What: "decexp", Bits: uint64(gen.Range(t, 0, math.MaxInt32)), Neg: gen.Chance(t, 50)}
	}
}

func TestC13(t *testing.T) {
	pi := Prop[C13IntCase]{ID: "C13", Sub: "int-accessors", Gen: genC13Int, Run: runC13Int, Quick: 10000, Thorough: 50000}
	Enumerate(t, pi, "boundaries", func(yield func(C13IntCase) bool) {
		for _, v := range gen.BoundaryInts() {
			for _, f := range c13Forms {
				if !yield(C13IntCase{Int: v.String(), Form: f}) {
					return
				}
			}
		}
	})
	Enumerate(t, pi, "all-16-bit", func(yield func(C13IntCase) bool) {
		for i := -32768; i <= 65535; i++ {
			for _, f := range []string{"text-dec", "bin-pad0", "write-binary"} {
				if !Thorough() && i%3 != 0 && f != "bin-pad0" {
					continue
				}
				if !yield(C13IntCase{Int: fmt.Sprint(i), Form: f}) {
					return
				}
			}
		}
	})
	RunProp(t, pi)

	pc := Prop[C13CellCase]{ID: "C13", Sub: "accessor-matrix", Run: runC13Cell}
	Enumerate(t, pc, "all-cells", func(yield func(C13CellCase) bool) {
		for k := model.Null; k <= model.Struct; k++ {
			for _, null := range []bool{false, true} {
				if k == model.Null && !null {
					continue
				}
				for _, bin := range []bool{false, true} {
					for _, a := range c13Accessors {
						if !yield(C13CellCase{Kind: int(k), Null: null, Binary: bin, Accessor: a}) {
							return
						}
					}
				}
			}
		}
	})
	RunProp(t, pc)

	pm := Prop[C13MagCase]{ID: "C13", Sub: "magnitudes", Gen: genC13Mag, Run: runC13Mag, Quick: 3000, Thorough: 30000}
	Enumerate(t, pm, "pools", func(yield func(C13MagCase) bool) {
		for _, f := range gen.FloatPool {
			if !yield(C13MagCase{What: "float", Bits: math.Float64bits(f)}) {
				return
			}
		}
		lens := []uint64{0, 1, 12, 13, 14, 15, 127, 128, 129, 16383, 16384, 16385, 1<<21 - 1, 1 << 21}
		for _, n := range lens {
			for _, w := range []string{"strlen", "bloblen", "listlen"} {
				if w == "listlen" && n > 20000 {
					continue
				}
				if !yield(C13MagCase{What: w, Bits: n}) {
					return
				}
			}
		}
		for _, e := range []uint64{0, 1, 62, 63, 64, 65, 8190, 8191, 8192, 8193, 1<<20 - 1, 1 << 20, 1<<20 + 1, 1<<27 - 1, 1 << 27, math.MaxInt32 - 1, math.MaxInt32} {
			for _, neg := range []bool{false, true} {
				if !yield(C13MagCase{What: "decexp", Bits: e, Neg: neg}) {
					return
				}
			}
		}
		for n := uint64(0); n < 7; n++ {
			for _, neg := range []bool{false, true} {
				if !yield(C13MagCase{What: "dectext", Bits: n, Neg: neg}) {
					return
				}
			}
		}
		for _, e := range []uint64{1<<31 + 1, 1<<31 + 2, 1 << 32, 1<<32 + 5, 1<<33 - 1, 1 << 40, 1<<62 - 1} {
			for _, neg := range []bool{false, true} {
				if !yield(C13MagCase{What: "decexp-over", Bits: e, Neg: neg}) {
					return
				}
			}
		}
		for _, m := range []uint64{0, 1, 100, 117, 118, 119, 245, 246, 247, 16373, 16374, 16375, 65525, 65526, 1<<20 - 10, 1 << 20, 1<<21 - 10, 1 << 24, 1<<31 - 10, 1 << 31, 1 << 32, 1 << 40, 1<<56 - 10, 1 << 56, 1 << 62} {
			if !yield(C13MagCase{What: "sid", Bits: m}) {
				return
			}
		}
	})
	RunProp(t, pm)
}

func init() {
	Describe("C13",
		"cases: (a) an integer x a presentation (decimal/hex/binary text, reference binary with 0-3 leading zero bytes, WriteInt/WriteUint/WriteBigInt through the three writer modes): exhaustive over +-(2^k+d) for k=0..80 and 127..1024, d=-2..2, all 16-bit values, random to 2^2048; (b) the full accessor x value-type x nullness x format matrix (11 accessors x 13 types); (c) floats (boundary pool + random bit patterns + float32 neighbours), payload lengths 0..2^21, decimal exponents across VarInt boundaries to +-(2^31-1), symbol IDs across VarUInt/UInt boundaries to 2^62 through fixed tables with Adjust-ed imports. Non-trivial: integer within 2 of a power of two >= 2^7, an off-diagonal or null cell, every float / magnitude case. Distinct by digest(case).",
		"oracle: reference model (IntSize one-directional as the property states: an over-wide answer is not a failure); reference binary decoder for what the writer stored",
		"symbol IDs above 2^20 are checked by inspecting the emitted bytes and by ion-go's reader with a catalog, because the reference decoder materialises import slots",
	)
}
