package checks

import (
	"bytes"
	"fmt"
	"math/big"
	"strings"
	"testing"

	"github.com/amzn/ion-go/ion"
	"pgregory.net/rapid"

	"verif/h/drive"
	"verif/h/gen"
	"verif/h/model"
	"verif/h/refbin"
	"verif/h/reftext"
)

// C12 — any Writer call sequence ends in a correct stream or an error.

type CallJ struct {
	Op   string       `json:"op"` // value fieldname annotation annotations begin:K end:K finish isinstruct badtoken-fieldname badtoken-annotation badtoken-symbol badnull
	Val  *model.Value `json:"val,omitempty"`
	Syms []model.Sym  `json:"syms,omitempty"`
	Pick int          `json:"pick,omitempty"`
}

func (c CallJ) String() string {
	switch c.Op {
	case "value":
		return "write(" + c.Val.String() + ")"
	case "fieldname", "annotation", "annotations":
		var s []string
		for _, x := range c.Syms {
			s = append(s, x.String())
		}
		return c.Op + "(" + strings.Join(s, ",") + ")"
	}
	return c.Op
}

type C12Case struct {
	Config int     `json:"config"` // 0 text, 1 pretty, 2 binary growing table, 3 binary fixed table
	Calls  []CallJ `json:"calls"`
}

var c12FixedTexts = []string{"a", "b", "f", "x", "name", "sym"}

// c12Fill are 300 filler symbols: appended to the fixed table of configuration 3
// and handed over as a third shared table in configurations 4 and 5, so that
// symbol IDs around 128 and 256 (where encodings change length) are in reach;
// c12HighTexts are the ones that land there.
var c12Fill, c12HighTexts = func() (fill, high []string) {
	for i := 0; i < 300; i++ {
		fill = append(fill, fmt.Sprintf("fill_%d", i))
	}
	for _, k := range []int{108, 109, 110, 111, 112, 113, 114, 236, 237, 238, 239, 240, 241, 242} {
		high = append(high, fill[k])
	}
	return
}()

func newC12Writer(config int, out *bytes.Buffer) ion.Writer {
	switch config {
	case 0:
		return ion.NewTextWriter(out)
	case 1:
		return ion.NewTextWriterOpts(out, ion.TextWriterPretty)
	case 2:
		return ion.NewBinaryWriter(out)
	case 4:
		return ion.NewBinaryWriter(out, c12IonSSTs...)
	case 5:
		return ion.NewTextWriter(out, c12IonSSTs...)
	}
	return ion.NewBinaryWriterLST(out, c12FixedTable)
}

// c12SSTs are the shared tables of configurations 4 and 5.
var c12SSTs = []SharedJ{{Name: "t1", Version: 1, Symbols: []string{"a", "x", "name"}, MaxID: -1}, {Name: "t2", Version: 2, Symbols: []string{"f", "b"}, MaxID: 4}, {Name: "fill", Version: 1, Symbols: c12Fill, MaxID: -1}}

// built once: shared and fixed tables are immutable and may serve any number of writers
var c12IonSSTs = ionSSTs(c12SSTs)
var c12FixedTable = ion.NewLocalSymbolTable(nil, append(append([]string{}, c12FixedTexts...), c12Fill...))
var c12RefCatalog = refCatalog(c12SSTs)

var c12ConfigNames = []string{"text", "pretty", "binary", "binary-fixed-lst", "binary+shared-tables", "text+shared-tables"}

func c12Binary(config int) bool { return config == 2 || config == 3 || config == 4 }

var badToken = ion.SymbolToken{LocalSID: ion.SymbolIDUnknown}

// doCall performs one call; returns the error (nil for IsInStruct).
func doCall(w ion.Writer, c CallJ) error {
	switch c.Op {
	case "value":
		return drive.WriteValue(w, *c.Val, func(n int) int { return c.Pick % n })
	case "fieldname":
		return w.FieldName(drive.Tok(c.Syms[0]))
	case "annotation":
		return w.Annotation(drive.Tok(c.Syms[0]))
	case "annotations":
		toks := make([]ion.SymbolToken, len(c.Syms))
		for i, s := range c.Syms {
			toks[i] = drive.Tok(s)
		}
		return w.Annotations(toks...)
	case "badtoken-fieldname":
		return w.FieldName(badToken)
	case "badtoken-annotation":
		return w.Annotation(badToken)
	case "badtoken-symbol":
		return w.WriteSymbol(badToken)
	case "badnull":
		// a Type value that names no Ion type
		// (the first one past StructType as often as all the others together)
		if c.Pick%2 == 0 {
			return w.WriteNullType(ion.StructType + 1)
		}
		return w.WriteNullType(ion.Type([]int{15, 16, 31, 32, 127, 128, 200, 201, 249, 254, 255}[(c.Pick/2)%11]))
	case "begin:list":
		return w.BeginList()
	case "begin:sexp":
		return w.BeginSexp()
	case "begin:struct":
		return w.BeginStruct()
	case "end:list":
		return w.EndList()
	case "end:sexp":
		return w.EndSexp()
	case "end:struct":
		return w.EndStruct()
	case "finish":
		return w.Finish()
	case "isinstruct":
		w.IsInStruct()
		return nil
	}
	panic("unknown op " + c.Op)
}

// runCalls executes the sequence on a fresh writer.
func runCalls(c C12Case) (out []byte, errs []error, panicMsg string) {
	var buf bytes.Buffer
	errs = make([]error, 0, len(c.Calls))
	panicMsg = drive.Guard2(func() string {
		w := newC12Writer(c.Config, &buf)
		for _, call := range c.Calls {
			errs = append(errs, doCall(w, call))
		}
		return ""
	})
	return buf.Bytes(), errs, panicMsg
}

// ---- reference protocol automaton

type frame struct {
	kind   model.Kind
	ann    []model.Sym
	name   *model.Sym
	elems  []model.Value
	fields []model.Field
}

type automaton struct {
	stack     []*frame
	top       []model.Value
	pendName  *model.Sym
	pendAnn   []model.Sym
	ambiguous bool
	badPend   bool // a pending token is invalid
	violation string
}

func (a *automaton) inStruct() bool {
	return len(a.stack) > 0 && a.stack[len(a.stack)-1].kind == model.Struct
}

func (a *automaton) place(v model.Value, name *model.Sym) {
	if len(a.stack) == 0 {
		if gen.IsSystemValue(v) {
			// a top-level $ion_symbol_table::{...} or bare $ion_1_0 is a system
			// value, not user data: outside the writers' user-value domain
			a.ambiguous = true
		}
		a.top = append(a.top, v)
		return
	}
	f := a.stack[len(a.stack)-1]
	if f.kind == model.Struct {
		f.fields = append(f.fields, model.Field{Name: *name, Val: v})
	} else {
		f.elems = append(f.elems, v)
	}
}

// takePending validates and consumes the pending name/annotations for a value.
func (a *automaton) takePending(i int, what string) (name *model.Sym, ann []model.Sym, ok bool) {
	if a.badPend {
		a.ambiguous = true
	}
	if a.inStruct() {
		if a.pendName == nil {
			if !a.badPend {
				a.violation = fmt.Sprintf("call %d (%s) succeeded inside a struct without a field name", i, what)
			}
			return nil, nil, false
		}
	} else if a.pendName != nil {
		a.ambiguous = true
	}
	name, ann = a.pendName, a.pendAnn
	a.pendName, a.pendAnn, a.badPend = nil, nil, false
	return name, ann, true
}

func (a *automaton) apply(i int, c CallJ) {
	switch c.Op {
	case "value":
		name, ann, ok := a.takePending(i, c.String())
		if !ok {
			return
		}
		v := *c.Val
		v.Ann = append(append([]model.Sym{}, ann...), v.Ann...)
		a.place(v, name)
	case "begin:list", "begin:sexp", "begin:struct":
		name, ann, ok := a.takePending(i, c.Op)
		if !ok {
			return
		}
		k := map[string]model.Kind{"begin:list": model.List, "begin:sexp": model.Sexp, "begin:struct": model.Struct}[c.Op]
		a.stack = append(a.stack, &frame{kind: k, ann: ann, name: name})
	case "end:list", "end:sexp", "end:struct":
		k := map[string]model.Kind{"end:list": model.List, "end:sexp": model.Sexp, "end:struct": model.Struct}[c.Op]
		if len(a.stack) == 0 || a.stack[len(a.stack)-1].kind != k {
			a.violation = fmt.Sprintf("call %d (%s) succeeded but that container is not open", i, c.Op)
			return
		}
		if a.pendName != nil || len(a.pendAnn) > 0 || a.badPend {
			a.ambiguous = true
		}
		a.pendName, a.pendAnn, a.badPend = nil, nil, false
		f := a.stack[len(a.stack)-1]
		a.stack = a.stack[:len(a.stack)-1]
		v := model.Value{Kind: f.kind, Ann: f.ann, Elems: f.elems, Fields: f.fields}
		a.place(v, f.name)
	case "fieldname", "badtoken-fieldname":
		if !a.inStruct() {
			a.violation = fmt.Sprintf("call %d (%s) succeeded outside a struct", i, c.Op)
			return
		}
		if a.pendName != nil {
			a.ambiguous = true
		}
		if c.Op == "badtoken-fieldname" {
			a.badPend = true
			return
		}
		s := c.Syms[0]
		a.pendName = &s
	case "annotation", "annotations":
		a.pendAnn = append(a.pendAnn, c.Syms...)
	case "badtoken-annotation":
		a.badPend = true
	case "badtoken-symbol":
		a.violation = fmt.Sprintf("call %d: WriteSymbol with a token that has neither text nor ID succeeded", i)
	case "badnull":
		a.violation = fmt.Sprintf("call %d: WriteNullType with a Type that names no Ion type succeeded", i)
	case "finish":
		if len(a.stack) != 0 {
			a.violation = fmt.Sprintf("call %d: Finish succeeded inside an open container", i)
			return
		}
		if a.pendName != nil || len(a.pendAnn) > 0 || a.badPend {
			a.ambiguous = true
		}
		a.pendName, a.pendAnn, a.badPend = nil, nil, false
	}
}

func errPattern(errs []error) string {
	b := make([]byte, len(errs))
	for i, e := range errs {
		if e == nil {
			b[i] = '.'
		} else {
			b[i] = 'E'
		}
	}
	return string(b)
}

func describeCalls(c C12Case, errs []error) string {
	var sb strings.Builder
	for i, call := range c.Calls {
		r := "nil"
		if i < len(errs) && errs[i] != nil {
			r = "ERR(" + firstLine(errs[i].Error(), 50) + ")"
		} else if i >= len(errs) {
			r = "-"
		}
		fmt.Fprintf(&sb, "\n   %2d %s -> %s", i, call.String(), r)
	}
	return sb.String()
}

func runC12(c C12Case) string {
	st := Stat("C12")
	out, errs, pmsg := runCalls(c)
	cfg := c12ConfigNames[c.Config]
	if pmsg != "" {
		return fmt.Sprintf("config=%s: a Writer call panicked: %s\ncalls:%s", cfg, firstLine(pmsg, 300), describeCalls(c, errs))
	}
	// (2) sticky errors
	firstErr := -1
	for i, e := range errs {
		if e != nil && c.Calls[i].Op != "finish" && c.Calls[i].Op != "isinstruct" {
			firstErr = i
			break
		}
	}
	misuse, midFinish, okValues := firstErr >= 0, false, 0
	for i, call := range c.Calls {
		if call.Op == "finish" && i < len(c.Calls)-1 {
			midFinish = true
		}
		if errs[i] != nil && call.Op == "finish" {
			misuse = true
		}
		if errs[i] == nil && (call.Op == "value" || strings.HasPrefix(call.Op, "begin:")) {
			okValues++
		}
	}
	st.Eval((misuse || midFinish) && okValues > 0, model.DigestBytes("c12", []byte(fmt.Sprintf("%d%v", c.Config, c.Calls))), "config."+cfg,
		map[bool]string{true: "has-misuse"}[misuse], map[bool]string{true: "intermediate-finish"}[midFinish])
	st.Sample(func() string { return fmt.Sprintf("config=%s%s", cfg, describeCalls(c, errs)) })
	if firstErr >= 0 {
		for i := firstErr + 1; i < len(errs); i++ {
			if errs[i] == nil && c.Calls[i].Op != "isinstruct" {
				return fmt.Sprintf("config=%s: call %d (%s) returned an error but later call %d (%s) returned nil\ncalls:%s", cfg, firstErr, c.Calls[firstErr], i, c.Calls[i], describeCalls(c, errs))
			}
		}
	}
	// (4) determinism
	out2, errs2, pmsg2 := runCalls(c)
	if pmsg2 != "" || errPattern(errs) != errPattern(errs2) || !bytes.Equal(out, out2) {
		return fmt.Sprintf("config=%s: the same call sequence gave different results on a fresh writer (%s vs %s, %d vs %d bytes)\ncalls:%s", cfg, errPattern(errs), errPattern(errs2), len(out), len(out2), describeCalls(c, errs))
	}
	// (3) final Finish returned nil => valid stream with exactly the succeeded values
	n := len(c.Calls)
	if n == 0 || c.Calls[n-1].Op != "finish" || errs[n-1] != nil {
		st.Class("final-finish-not-nil")
		return ""
	}
	a := &automaton{}
	for i, call := range c.Calls {
		if errs[i] == nil {
			a.apply(i, call)
			if a.violation != "" {
				return fmt.Sprintf("config=%s: %s\ncalls:%s", cfg, a.violation, describeCalls(c, errs))
			}
		}
	}
	if a.ambiguous {
		st.Discard("ambiguous_sequence")
		return ""
	}
	st.Class("stream-checked")
	var got []model.Value
	if c12Binary(c.Config) {
		res, err := refbin.Decode(out, refbin.Options{RequireIVM: true, Catalog: c12RefCatalog})
		if err != nil {
			return fmt.Sprintf("config=%s: final Finish returned nil but the output is not valid Ion binary: %v\noutput: % x\ncalls:%s", cfg, err, clip(out, 300), describeCalls(c, errs))
		}
		got = res.Values
	} else {
		res, err := reftext.Parse(out, reftext.Options{Catalog: c12RefCatalog})
		if err != nil {
			return fmt.Sprintf("config=%s: final Finish returned nil but the output is not valid Ion text: %v\noutput: %q\ncalls:%s", cfg, err, clip(out, 300), describeCalls(c, errs))
		}
		got = res.Values
	}
	if d := model.DiffSeq(a.top, got); d != "" {
		return fmt.Sprintf("config=%s: final Finish returned nil but the stream does not hold the succeeded values: %s\nexpected: %s\noutput: %q\ncalls:%s", cfg, d, model.SeqString(a.top), clip(out, 300), describeCalls(c, errs))
	}
	return ""
}

// ---- generation

func genScalar(t *rapid.T) model.Value {
	cfg := &gen.Cfg{MaxDepth: 0, AllowUnknown: true, NoAnn: true, Size: &gen.Size{}}
	for {
		v := gen.Value(t, cfg)
		if v.Kind.IsContainer() && !v.IsNull {
			continue
		}
		return v
	}
}

func c12Sym(t *rapid.T) model.Sym {
	if gen.Chance(t, 12) {
		return model.S(gen.Pick(t, c12HighTexts))
	}
	if gen.Chance(t, 70) {
		return model.S(gen.Pick(t, c12FixedTexts))
	}
	return gen.Sym(t, &gen.Size{}, true)
}

func genC12(t *rapid.T) C12Case {
	c := C12Case{Config: gen.Intn(t, 6)}
	n := gen.Range(t, 1, 40)
	// a light-weight shadow of the protocol state to bias towards legal calls
	var stack []string
	pendName := false
	// per-case bias: mostly-misused sequences exercise refusal and stickiness,
	// mostly / entirely legal ones reach the stream oracle (3)
	bias := gen.Pick(t, []int{75, 75, 93, 100})
	for i := 0; i < n; i++ {
		legal := gen.Chance(t, bias)
		inStruct := len(stack) > 0 && stack[len(stack)-1] == "struct"
		var call CallJ
		k := gen.Intn(t, 20)
		switch {
		case legal && inStruct && !pendName:
			call = CallJ{Op: "fieldname", Syms: []model.Sym{c12Sym(t)}}
			if gen.Chance(t, 15) && len(stack) > 0 {
				call = CallJ{Op: "end:struct"}
			}
		case k < 8:
			v := genScalar(t)
			if c.Config == 3 && v.Kind == model.Symbol && !v.IsNull && gen.Chance(t, 80) {
				v.Sym = model.S(gen.Pick(t, c12FixedTexts))
			}
			if v.Kind == model.Symbol && !v.IsNull && gen.Chance(t, 15) {
				v.Sym = model.S(gen.Pick(t, c12HighTexts))
			}
			call = CallJ{Op: "value", Val: &v, Pick: gen.Intn(t, 6)}
		case k < 10:
			call = CallJ{Op: "annotation", Syms: []model.Sym{c12Sym(t)}}
		case k == 10:
			call = CallJ{Op: "annotations", Syms: []model.Sym{c12Sym(t), c12Sym(t)}}
		case k < 14:
			call = CallJ{Op: "begin:" + gen.Pick(t, []string{"list", "sexp", "struct"})}
		case k < 17:
			if legal && len(stack) > 0 {
				call = CallJ{Op: "end:" + stack[len(stack)-1]}
			} else if legal {
				v := genScalar(t)
				call = CallJ{Op: "value", Val: &v, Pick: gen.Intn(t, 6)}
			} else {
				call = CallJ{Op: "end:" + gen.Pick(t, []string{"list", "sexp", "struct"})}
			}
		case k == 17:
			if legal && len(stack) > 0 {
				call = CallJ{Op: "end:" + stack[len(stack)-1]}
			} else {
				call = CallJ{Op: "finish"}
			}
		case k == 18:
			call = CallJ{Op: gen.Pick(t, []string{"isinstruct", "fieldname", "badtoken-fieldname", "badtoken-annotation", "badtoken-symbol", "badnull"})}
			if call.Op == "badnull" {
				call.Pick = gen.Intn(t, 22)
			}
			if call.Op == "fieldname" {
				call.Syms = []model.Sym{c12Sym(t)}
			}
			if legal && call.Op != "isinstruct" {
				call = CallJ{Op: "isinstruct"}
			}
		default:
			call = CallJ{Op: "finish"}
			if legal && len(stack) > 0 {
				call = CallJ{Op: "end:" + stack[len(stack)-1]}
			}
		}
		// shadow update (optimistic)
		switch {
		case strings.HasPrefix(call.Op, "begin:"):
			stack = append(stack, call.Op[6:])
			pendName = false
		case strings.HasPrefix(call.Op, "end:"):
			if len(stack) > 0 && stack[len(stack)-1] == call.Op[4:] {
				stack = stack[:len(stack)-1]
			}
			pendName = false
		case call.Op == "fieldname":
			pendName = true
		case call.Op == "value":
			pendName = false
		}
		c.Calls = append(c.Calls, call)
	}
	// close what is open (most of the time) and finish
	if gen.Chance(t, 85) {
		for i := len(stack) - 1; i >= 0; i-- {
			c.Calls = append(c.Calls, CallJ{Op: "end:" + stack[i]})
		}
	}
	c.Calls = append(c.Calls, CallJ{Op: "finish"})
	if gen.Chance(t, 25) {
		c.Calls = append(c.Calls, CallJ{Op: "finish"})
	}
	return c
}

func c12Alphabet() []CallJ {
	one := model.Int64V(1)
	sym := model.SymV(model.S("a"))
	return []CallJ{
		{Op: "value", Val: &one},
		{Op: "value", Val: &sym},
		{Op: "fieldname", Syms: []model.Sym{model.S("f")}},
		{Op: "annotation", Syms: []model.Sym{model.S("x")}},
		{Op: "begin:list"},
		{Op: "begin:struct"},
		{Op: "end:list"},
		{Op: "end:struct"},
		{Op: "finish"},
	}
}

func TestC12(t *testing.T) {
	p := Prop[C12Case]{ID: "C12", Sub: "sequences", Gen: genC12, Run: runC12, Quick: 8000, Thorough: 200000}
	alpha := c12Alphabet()
	maxLen := Scale(5, 6)
	EnumerateSharded(t, p, "short-sequences", func(shard, nshards int, yield func(C12Case) bool) {
		idx := 0
		var rec func(cur []CallJ) bool
		rec = func(cur []CallJ) bool {
			if len(cur) > 0 {
				idx++
				if idx%nshards == shard {
					for cfg := 0; cfg < 6; cfg++ {
						calls := append(append([]CallJ{}, cur...), CallJ{Op: "finish"})
						if !yield(C12Case{Config: cfg, Calls: calls}) {
							return false
						}
					}
				}
			}
			if len(cur) == maxLen {
				return true
			}
			for _, a := range alpha {
				if !rec(append(cur, a)) {
					return false
				}
			}
			return true
		}
		rec(nil)
	})
	// containers nested 1..70 deep (each kind, and mixed), a value and an annotated
	// value at the bottom, everything closed again: every configuration
	Enumerate(t, p, "deep-nesting", func(yield func(C12Case) bool) {
		one := model.Int64V(1)
		for depth := 1; depth <= 70; depth++ {
			for _, kind := range []string{"list", "sexp", "struct", "mixed"} {
				var calls []CallJ
				var open []string
				for d := 0; d < depth; d++ {
					k := kind
					if k == "mixed" {
						k = []string{"list", "struct", "sexp"}[d%3]
					}
					if len(open) > 0 && open[len(open)-1] == "struct" {
						calls = append(calls, CallJ{Op: "fieldname", Syms: []model.Sym{model.S("f")}})
					}
					calls = append(calls, CallJ{Op: "begin:" + k})
					open = append(open, k)
				}
				if open[len(open)-1] == "struct" {
					calls = append(calls, CallJ{Op: "fieldname", Syms: []model.Sym{model.S("a")}})
				}
				calls = append(calls, CallJ{Op: "value", Val: &one})
				if open[len(open)-1] == "struct" {
					calls = append(calls, CallJ{Op: "fieldname", Syms: []model.Sym{model.S("b")}})
				}
				calls = append(calls, CallJ{Op: "annotation", Syms: []model.Sym{model.S("x")}}, CallJ{Op: "value", Val: &one})
				for d := depth - 1; d >= 0; d-- {
					calls = append(calls, CallJ{Op: "end:" + open[d]})
				}
				calls = append(calls, CallJ{Op: "finish"})
				for cfg := 0; cfg < 6; cfg++ {
					if depth%7 != 3 && depth > 20 && cfg != 1 {
						continue // beyond 20 every seventh depth only, the pretty writer at every depth
					}
					if !yield(C12Case{Config: cfg, Calls: calls}) {
						return
					}
				}
			}
		}
	})
	RunProp(t, p)
}

var _ = big.NewInt

func init() {
	Describe("C12",
		"cases: (writer configuration in {text, pretty, binary growing table, binary fixed table, binary with three shared tables, text with three shared tables; the fixed table and the third shared table hold 300 filler symbols so that symbol IDs around 128 and 256 are used}, call sequence over the whole Writer interface with generated scalar arguments, 1-40 calls biased 75% towards protocol-legal next calls, always ending in Finish, sometimes twice). Plus exhaustive enumeration of every sequence up to length 5 (6 in the thorough tier) over a 9-call alphabet {WriteInt, WriteSymbol, FieldName, Annotation, BeginList, BeginStruct, EndList, EndStruct, Finish} x 6 configurations, each followed by a final Finish; plus containers nested 1-70 deep (lists, sexps, structs, mixed) with a value and an annotated value at the bottom. Non-trivial: the sequence contains a refused call or an intermediate Finish, and at least one value call succeeded. Distinct by digest(configuration, calls).",
		"oracle: (1) no panic; (2) after the first non-Finish error every later call errors; (3) if the final Finish returns nil the bytes decode under the strict reference decoder to exactly the values a reference protocol automaton builds from the calls that returned nil, and a nil-returning call the automaton cannot apply is itself a violation; (4) a second run on a fresh writer gives identical bytes and error pattern",
		"sequences that abandon a pending field name or annotation (End*/Finish straight after FieldName/Annotation, FieldName twice, an invalid pending token) have no documented meaning: they are run for (1), (2), (4) and skipped for (3), counted under discarded.ambiguous_sequence",
	)
}
