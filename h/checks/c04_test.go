package checks

import (
	"bytes"
	"fmt"
	"strings"
	"testing"

	"github.com/amzn/ion-go/ion"
	"pgregory.net/rapid"

	"verif/h/drive"
	"verif/h/gen"
	"verif/h/model"
	"verif/h/refbin"
	"verif/h/reftext"
)

// C04 — writer output is valid, self-contained Ion under an independent decoder.

// SharedJ is a shared symbol table in a case file. An empty string is a gap.
type SharedJ struct {
	Name    string   `json:"name"`
	Version int      `json:"version"`
	Symbols []string `json:"symbols"`
	// MaxID >= 0: the table is passed through Adjust(MaxID) before use.
	MaxID int `json:"max_id"`
}

func (s SharedJ) ion() ion.SharedSymbolTable {
	// the table must own its symbols: the caller's slice (with spare capacity) is
	// overwritten right after the constructor returns
	tmp := make([]string, len(s.Symbols), len(s.Symbols)+3)
	copy(tmp, s.Symbols)
	t := ion.NewSharedSymbolTable(s.Name, s.Version, tmp)
	for i := range tmp {
		tmp[i] = "scribbled"
	}
	_ = append(tmp, "more")
	if s.MaxID >= 0 {
		t = t.Adjust(uint64(s.MaxID))
	}
	return t
}

// slots returns the reference view of the table as the writer sees it.
func (s SharedJ) slots() []refbin.Slot {
	n := len(s.Symbols)
	if s.MaxID >= 0 {
		n = s.MaxID
	}
	out := make([]refbin.Slot, n)
	for i := range out {
		if i < len(s.Symbols) && s.Symbols[i] != "" {
			out[i] = refbin.K(s.Symbols[i])
		}
	}
	return out
}

// localTable is NewLocalSymbolTable from slices the caller overwrites afterwards.
func localTable(imps []ion.SharedSymbolTable, locals []string) ion.SymbolTable {
	ti := make([]ion.SharedSymbolTable, len(imps), len(imps)+2)
	copy(ti, imps)
	tl := make([]string, len(locals), len(locals)+3)
	copy(tl, locals)
	t := ion.NewLocalSymbolTable(ti, tl)
	for i := range tl {
		tl[i] = "scribbled"
	}
	for i := range ti {
		ti[i] = ion.NewSharedSymbolTable("scribbled", 1, []string{"scribbled"})
	}
	_ = append(tl, "more")
	return t
}

func ionSSTs(ss []SharedJ) []ion.SharedSymbolTable {
	var out []ion.SharedSymbolTable
	for _, s := range ss {
		out = append(out, s.ion())
	}
	return out
}

func refCatalog(ss []SharedJ) refbin.Catalog {
	var c refbin.Catalog
	for _, s := range ss {
		c = append(c, refbin.Shared{Name: s.Name, Version: s.Version, Slots: s.slots()})
	}
	return c
}

type C04Case struct {
	Mode    int             `json:"mode"` // 0 text, 1 pretty, 2 binary, 3 binary with fixed LST
	Picks   []int           `json:"picks"`
	SSTs    []SharedJ       `json:"ssts"`
	Batches [][]model.Value `json:"batches"`
	// Quiet: the text writers are created with TextWriterQuietFinish
	Quiet bool `json:"quiet,omitempty"`
}

var modeNames = []string{"text", "pretty", "binary", "binary-fixed-lst"}

// fixedLST builds the fixed table for mode 3: the imports plus every text the
// values use, so that no write call can be refused.
func fixedLST(c C04Case) ion.SymbolTable {
	var all []model.Value
	for _, b := range c.Batches {
		all = append(all, b...)
	}
	return localTable(ionSSTs(c.SSTs), refbin.CollectSymbols(all))
}

func runWriterCase(c C04Case) (out []byte, all []model.Value, err error) {
	var buf bytes.Buffer
	err = drive.Guard(func() error {
		var w ion.Writer
		switch c.Mode {
		case 0:
			if c.Quiet {
				w = ion.NewTextWriterOpts(&buf, ion.TextWriterQuietFinish, ionSSTs(c.SSTs)...)
			} else {
				w = ion.NewTextWriter(&buf, ionSSTs(c.SSTs)...)
			}
		case 1:
			if c.Quiet {
				w = ion.NewTextWriterOpts(&buf, ion.TextWriterPretty|ion.TextWriterQuietFinish, ionSSTs(c.SSTs)...)
			} else {
				w = ion.NewTextWriterOpts(&buf, ion.TextWriterPretty, ionSSTs(c.SSTs)...)
			}
		case 2:
			w = ion.NewBinaryWriter(&buf, ionSSTs(c.SSTs)...)
		default:
			w = ion.NewBinaryWriterLST(&buf, fixedLST(c))
		}
		p := pickerOf(c.Picks)
		for _, b := range c.Batches {
			if err := drive.WriteSeq(w, b, p); err != nil {
				return err
			}
			if err := w.Finish(); err != nil {
				return fmt.Errorf("Finish: %w", err)
			}
		}
		return nil
	})
	for _, b := range c.Batches {
		all = append(all, b...)
	}
	return buf.Bytes(), all, err
}

func runC04(c C04Case) string {
	st := Stat("C04")
	out, all, werr := runWriterCase(c)
	nt, classes := valueTraits(all)
	classes = append(classes, "mode."+modeNames[c.Mode])
	if len(c.SSTs) > 0 {
		classes = append(classes, "shared-tables")
		nt = true
	}
	if len(c.Batches) > 1 {
		classes = append(classes, "multi-batch")
	}
	if werr != nil {
		st.Discard("writer_refused")
		st.Discard("writer_refused: " + firstLine(werr.Error(), 60))
		return ""
	}
	st.Eval(nt, model.Digest(all)^uint64(c.Mode+1)*0x9E3779B97F4A7C15^uint64(len(c.SSTs))<<7^uint64(len(c.Batches))<<3^uint64(btoi(c.Quiet))<<11, classes...)
	st.Sample(func() string {
		return fmt.Sprintf("mode=%s ssts=%d batches=%d vals=%s", modeNames[c.Mode], len(c.SSTs), len(c.Batches), model.SeqString(all))
	})
	cat := refCatalog(c.SSTs)
	if c.Mode >= 2 {
		if len(out) > 0 && !bytes.HasPrefix(out, refbin.IVM) {
			return fmt.Sprintf("binary output does not start with a version marker\noutput: % x", clip(out, 200))
		}
		res, err := refbin.Decode(out, refbin.Options{Catalog: cat, RequireIVM: true})
		if err != nil {
			return fmt.Sprintf("mode=%s: independent decoder rejects writer output: %v\noutput: % x", modeNames[c.Mode], err, clip(out, 400))
		}
		if d := model.DiffSeq(all, res.Values); d != "" {
			return fmt.Sprintf("mode=%s: independent decoder recovers different values: %s\noutput: % x", modeNames[c.Mode], d, clip(out, 400))
		}
		return ""
	}
	res, err := reftext.Parse(out, reftext.Options{Catalog: cat})
	if err != nil {
		return fmt.Sprintf("mode=%s: independent parser rejects writer output: %v\noutput: %q", modeNames[c.Mode], err, clip(out, 400))
	}
	if d := model.DiffSeq(all, res.Values); d != "" {
		return fmt.Sprintf("mode=%s: independent parser recovers different values: %s\noutput: %q", modeNames[c.Mode], d, clip(out, 400))
	}
	return ""
}

var sstSymbolPool = []string{"a", "b", "abc", "name", "version", "x", "y", "$ion", "null", "+", "", "", "é", "$5", "a b", "sym1", "sym2", "f", "g"}

func genSSTs(t *rapid.T, max int) []SharedJ {
	n := gen.Pick(t, []int{0, 0, 1, 1, 2, 3})
	if n > max {
		n = max
	}
	var out []SharedJ
	for i := 0; i < n; i++ {
		// (names and versions that run together the same way: t1 v1 / t v11, t1 v2 / t v12, ...)
		s := SharedJ{Name: gen.Pick(t, []string{"t1", "t2", "tbl", "T", "t", "t1", "t"}), Version: gen.Pick(t, []int{1, 2, 3, 1, 2, 3, 1, 2, 11, 12, 21}), MaxID: -1}
		for again := true; again; {
			// (no two tables of a set share name and version)
			again = false
			for _, o := range out {
				if o.Name == s.Name && o.Version == s.Version {
					s.Name += fmt.Sprint("_", i)
					again = true
				}
			}
		}
		k := gen.Range(t, 0, 6)
		for j := 0; j < k; j++ {
			s.Symbols = append(s.Symbols, gen.Pick(t, sstSymbolPool))
		}
		if gen.Chance(t, 30) {
			s.MaxID = gen.Range(t, 0, k+3)
		}
		out = append(out, s)
	}
	return out
}

func genC04(t *rapid.T) C04Case {
	cfg := &gen.Cfg{MaxDepth: gen.Pick(t, []int{1, 2, 3, 5}), AllowUnknown: true, Size: &gen.Size{Big: gen.Chance(t, 8)}}
	c := C04Case{Mode: gen.Intn(t, 4), Picks: genPicks(t)}
	c.SSTs = genSSTs(t, 3)
	nb := gen.Pick(t, []int{1, 1, 1, 2, 3})
	for i := 0; i < nb; i++ {
		c.Batches = append(c.Batches, gen.Seq(t, cfg, 5))
	}
	c.Quiet = c.Mode < 2 && gen.Chance(t, 30)
	return c
}

func btoi(b bool) int {
	if b {
		return 1
	}
	return 0
}

func TestC04(t *testing.T) {
	p := Prop[C04Case]{ID: "C04", Sub: "independent-decode", Gen: genC04, Run: runC04, Quick: 20000, Thorough: 400000}
	// nested containers and annotation wrappers whose content is around 128 and
	// 16384 bytes (where the length field of the node grows by a byte)
	Enumerate(t, p, "nested-content-lengths", func(yield func(C04Case) bool) {
		var ns []int
		for n := 105; n <= 135; n++ {
			ns = append(ns, n)
		}
		for n := 16370; n <= 16390; n++ {
			ns = append(ns, n)
		}
		for _, n := range ns {
			str := model.StrV(strings.Repeat("x", n))
			shapes := [][]model.Value{
				{model.ListV(model.ListV(str), model.Int64V(1))},
				{model.ListV(str.WithAnn(model.S("a")), model.Int64V(1))},
				{model.StructV(model.Field{Name: model.S("f"), Val: model.SexpV(str, model.Int64V(2))}, model.Field{Name: model.S("g"), Val: model.Int64V(1)})},
				{model.ListV(model.StructV(model.Field{Name: model.S("f"), Val: model.BlobV(bytes.Repeat([]byte{7}, n))})).WithAnn(model.S("b"))},
			}
			for _, sh := range shapes {
				for _, mode := range []int{2, 3} {
					if !yield(C04Case{Mode: mode, Batches: [][]model.Value{sh}}) {
						return
					}
				}
			}
		}
	})
	// many distinct symbols in one stream: symbol IDs around 128, 256 (and 16384 in
	// thorough) as values, field names and annotations
	Enumerate(t, p, "many-symbols", func(yield func(C04Case) bool) {
		n := 300
		if Thorough() {
			n = 16500
		}
		var syms []model.Value
		for i := 0; i < n; i++ {
			syms = append(syms, model.SymV(model.S(fmt.Sprintf("sym_%d", i))))
		}
		var uses []model.Value
		for _, k := range []int{116, 117, 118, 119, 120, 244, 245, 246, 247, 248, 16372, 16373, 16374, 16375, 16376} {
			if k >= n {
				continue
			}
			sk := model.S(fmt.Sprintf("sym_%d", k))
			uses = append(uses, model.Int64V(int64(k)).WithAnn(sk), model.StructV(model.Field{Name: sk, Val: model.SymV(sk)}), model.SymV(sk).WithAnn(sk, model.S("sym_3")))
		}
		for mode := 0; mode < 4; mode++ {
			if !yield(C04Case{Mode: mode, Batches: [][]model.Value{{model.ListV(syms...)}, uses}}) || !yield(C04Case{Mode: mode, Batches: [][]model.Value{append(append([]model.Value{}, syms...), uses...)}}) {
				return
			}
		}
	})
	Enumerate(t, p, "boundary-pool", func(yield func(C04Case) bool) {
		for _, v := range boundaryScalars() {
			shapes := [][]model.Value{
				{v},
				{v.WithAnn(model.S("a"))},
				{model.StructV(model.Field{Name: model.S("f"), Val: v})},
				{model.ListV(v, model.SexpV(v))},
			}
			for mode := 0; mode < 4; mode++ {
				for _, vals := range shapes {
					if !yield(C04Case{Mode: mode, Batches: [][]model.Value{vals}}) {
						return
					}
				}
			}
		}
	})
	RunProp(t, p)
}

func init() {
	Describe("C04",
		"cases: (writer configuration, shared tables, value batches, API-route picks): configuration in {text, pretty, binary with growing table, binary with fixed table}, 0-3 shared tables (overlapping text, gaps, Adjust-ed max_id), 1-3 batches each ended by Finish, values from the C01 generator; plus the enumerated boundary pool x 4 shapes x 4 configurations. Non-trivial: as C01 (annotation, nesting >= 2, typed null, boundary number, escapes / non-ASCII, reserved-looking symbol, payload >= 14) or shared tables in use. Distinct by digest(configuration, values).",
		"oracle: the harness's strict binary decoder / text parser (no code shared with ion-go): stream starts with a version marker, every length matches the bytes occupied, containers nest exactly, every symbol ID is <= max_id of the table in force at that point (tables rebuilt only from symbol-table structs seen earlier in the same bytes, imports resolved against the catalog the test gave the writer), decoded values equal the written values",
		"conditional on every writer call and Finish returning nil; refused sequences are counted under discarded.writer_refused",
	)
}
