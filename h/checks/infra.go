// Package checks holds one property check per listed property (TestCxx) plus
// the shared statistics / replay / known-finding plumbing.
package checks

import (
	"encoding/json"
	"flag"
	"fmt"
	"os"
	"path/filepath"
	"sort"
	"strings"
	"sync"
	"testing"

	"pgregory.net/rapid"

	"verif/h/gen"
)

// ---------------------------------------------------------------- environment

// Root is /verif (or VERIF_ROOT).
func Root() string {
	if r := os.Getenv("VERIF_ROOT"); r != "" {
		return r
	}
	return "/verif"
}

// Thorough reports whether the thorough tier was requested.
func Thorough() bool { return os.Getenv("VERIF_TIER") == "thorough" }

// Shard returns this process's shard index and the shard count.
func Shard() (int, int) {
	var i, n int
	fmt.Sscanf(os.Getenv("VERIF_SHARD"), "%d/%d", &i, &n)
	if n <= 0 {
		return 0, 1
	}
	return i, n
}

// Scale returns q in the quick tier and th in the thorough tier.
func Scale(q, th int) int {
	if Thorough() {
		return th
	}
	return q
}

// ---------------------------------------------------------------- statistics

// Stats accumulates what a run covered for one property.
type Stats struct {
	mu          sync.Mutex
	Evaluations int64
	nt          map[uint64]struct{}
	Classes     map[string]int64
	Discarded   map[string]int64
	Enumerated  map[string]int64
	Samples     []string
	sampleSeen  int
	Violations  []string
	Known       []string
	Extra       map[string]float64
	Rule        string
	Assumptions []string
}

// Describe records the non-triviality rule and the assumptions of a property
// (copied into the evidence file).
func Describe(id, rule string, assumptions ...string) {
	s := Stat(id)
	s.mu.Lock()
	s.Rule, s.Assumptions = rule, assumptions
	s.mu.Unlock()
}

var (
	statsMu  sync.Mutex
	allStats = map[string]*Stats{}
)

// Stat returns the statistics object of a property.
func Stat(id string) *Stats {
	statsMu.Lock()
	defer statsMu.Unlock()
	s := allStats[id]
	if s == nil {
		s = &Stats{nt: map[uint64]struct{}{}, Classes: map[string]int64{}, Discarded: map[string]int64{}, Enumerated: map[string]int64{}, Extra: map[string]float64{}}
		allStats[id] = s
	}
	return s
}

// Eval records one executed case. digest identifies the case; nontrivial says
// whether it satisfies the property's stated non-triviality rule.
func (s *Stats) Eval(nontrivial bool, digest uint64, classes ...string) {
	s.mu.Lock()
	s.Evaluations++
	if nontrivial {
		s.nt[digest] = struct{}{}
	}
	for _, c := range classes {
		if c != "" {
			s.Classes[c]++
		}
	}
	s.mu.Unlock()
}

// Class bumps a generator-class counter.
func (s *Stats) Class(c string) {
	s.mu.Lock()
	s.Classes[c]++
	s.mu.Unlock()
}

// Discard records a discarded case with a reason.
func (s *Stats) Discard(reason string) {
	s.mu.Lock()
	s.Discarded[reason]++
	s.mu.Unlock()
}

// Enum records enumerated cases of an exhaustive sub-grid.
func (s *Stats) Enum(name string, n int) {
	s.mu.Lock()
	s.Enumerated[name] += int64(n)
	s.mu.Unlock()
}

// Max keeps the maximum of a named measurement.
func (s *Stats) Max(name string, v float64) {
	s.mu.Lock()
	if v > s.Extra[name] {
		s.Extra[name] = v
	}
	s.mu.Unlock()
}

// Sample offers a rendered case; a few are kept (first ones, then sparse).
func (s *Stats) Sample(render func() string) {
	s.mu.Lock()
	defer s.mu.Unlock()
	s.sampleSeen++
	n := s.sampleSeen
	keep := n <= 2 || (len(s.Samples) < 8 && (n == 50 || n == 500 || n == 3000 || n == 20000 || n == 90000 || n == 100000 || n == 400000))
	if keep {
		r := render()
		if len(r) > 600 {
			r = r[:600] + "…"
		}
		s.Samples = append(s.Samples, r)
	}
}

type statsJSON struct {
	Evaluations int64              `json:"evaluations"`
	NT          []string           `json:"nt"`
	Classes     map[string]int64   `json:"classes"`
	Discarded   map[string]int64   `json:"discarded"`
	Enumerated  map[string]int64   `json:"enumerated"`
	Samples     []string           `json:"samples"`
	Violations  []string           `json:"violations"`
	Known       []string           `json:"known"`
	Excluded    map[string]int     `json:"excluded"`
	Extra       map[string]float64 `json:"extra"`
	Rule        string             `json:"rule"`
	Assumptions []string           `json:"assumptions"`
}

// WriteStats dumps all statistics to path.
func WriteStats(path string) error {
	statsMu.Lock()
	defer statsMu.Unlock()
	out := map[string]statsJSON{}
	for id, s := range allStats {
		s.mu.Lock()
		j := statsJSON{Evaluations: s.Evaluations, Classes: s.Classes, Discarded: s.Discarded, Enumerated: s.Enumerated,
			Samples: s.Samples, Violations: s.Violations, Known: s.Known, Excluded: gen.ExcludedCounts(), Extra: s.Extra, Rule: s.Rule, Assumptions: s.Assumptions}
		for d := range s.nt {
			j.NT = append(j.NT, fmt.Sprintf("%x", d))
		}
		sort.Strings(j.NT)
		out[id] = j
		s.mu.Unlock()
	}
	b, err := json.Marshal(out)
	if err != nil {
		return err
	}
	return os.WriteFile(path, b, 0o644)
}

// ---------------------------------------------------------------- known findings

// Finding is one entry of known_findings.json.
type Finding struct {
	Property   string   `json:"property"`
	ID         string   `json:"id"`
	Status     string   `json:"status"` // open | fixed
	What       string   `json:"what"`
	Reproducer string   `json:"reproducer"` // path relative to Root
	Exclude    []string `json:"exclude"`
	Commit     string   `json:"commit,omitempty"`
	// Match is a substring the failure message of the reproducer must contain
	// for the failure to count as this finding.
	Match string `json:"match,omitempty"`
}

var findings []Finding

// LoadFindings reads known_findings.json and switches off the generator
// features of open findings.
func LoadFindings() error {
	b, err := os.ReadFile(filepath.Join(Root(), "known_findings.json"))
	if err != nil {
		if os.IsNotExist(err) {
			return nil
		}
		return err
	}
	var doc struct {
		Findings []Finding `json:"findings"`
	}
	if err := json.Unmarshal(b, &doc); err != nil {
		return err
	}
	findings = doc.Findings
	var keys []string
	for _, f := range findings {
		if f.Status == "open" {
			keys = append(keys, f.Exclude...)
		}
	}
	if os.Getenv("VERIF_NO_EXCLUDE") != "" {
		keys = nil
	}
	gen.SetExcluded(keys)
	return nil
}

// openFindingFor returns the open finding whose reproducer is the given corpus
// file (path relative to Root), or nil.
func openFindingFor(rel string) *Finding {
	for i := range findings {
		if findings[i].Status == "open" && filepath.Clean(findings[i].Reproducer) == filepath.Clean(rel) {
			return &findings[i]
		}
	}
	return nil
}

// ---------------------------------------------------------------- replay files

type replayFile struct {
	Property string          `json:"property"`
	Sub      string          `json:"sub"`
	Failure  string          `json:"failure,omitempty"`
	Case     json.RawMessage `json:"case"`
}

var outMu sync.Mutex

// reportViolation writes a replay file and prints the VIOLATION line.
func reportViolation(id, sub string, c interface{}, msg string) string {
	raw, err := json.Marshal(c)
	if err != nil {
		raw, _ = json.Marshal(fmt.Sprintf("unserialisable case: %v", err))
	}
	rf := replayFile{Property: id, Sub: sub, Failure: msg, Case: raw}
	b, _ := json.MarshalIndent(rf, "", " ")
	dir := filepath.Join(Root(), "replays")
	_ = os.MkdirAll(dir, 0o755)
	h := fnvBytes(raw)
	path := filepath.Join(dir, fmt.Sprintf("%s-%s-%016x.json", id, sub, h))
	_ = os.WriteFile(path, b, 0o644)
	outMu.Lock()
	fmt.Printf("VIOLATION property=%s replay=%s\n", id, path)
	first := msg
	if i := strings.IndexByte(first, '\n'); i > 0 {
		first = first[:i]
	}
	fmt.Printf("  detail: [%s] %s\n", sub, first)
	outMu.Unlock()
	st := Stat(id)
	st.mu.Lock()
	st.Violations = append(st.Violations, path)
	st.mu.Unlock()
	return path
}

func fnvBytes(b []byte) uint64 {
	h := uint64(14695981039346656037)
	for _, c := range b {
		h ^= uint64(c)
		h *= 1099511628211
	}
	return h
}

// ---------------------------------------------------------------- generic property runner

// Prop describes one sub-check of a property over case type C.
type Prop[C any] struct {
	ID  string // property id, e.g. C01
	Sub string // sub-check name, e.g. roundtrip
	// Gen draws a case.
	Gen func(t *rapid.T) C
	// Run executes the case and returns "" or a failure description. It must
	// be a pure function of the case.
	Run func(c C) string
	// Checks is the number of rapid cases (quick, thorough per shard).
	Quick, Thorough int
}

// registry of sub-checks for --replay
var (
	regMu    sync.Mutex
	replayFn = map[string]func(raw json.RawMessage) (string, error){}
)

func register[C any](p Prop[C]) {
	regMu.Lock()
	defer regMu.Unlock()
	replayFn[p.ID+"/"+p.Sub] = func(raw json.RawMessage) (string, error) {
		var c C
		if err := json.Unmarshal(raw, &c); err != nil {
			return "", err
		}
		return safeRun(p.Run, c), nil
	}
}

func safeRun[C any](run func(C) string, c C) (msg string) {
	defer func() {
		if r := recover(); r != nil {
			msg = fmt.Sprintf("PANIC escaped to harness: %v", r)
		}
	}()
	return run(c)
}

// RunProp runs the corpus tier and then the rapid search for one sub-check as a
// subtest of t.
func RunProp[C any](t *testing.T, p Prop[C]) {
	register(p)
	if replayMode(t, p.ID, p.Sub) {
		return
	}
	t.Run(p.Sub, func(t *testing.T) {
		if i, _ := Shard(); i == 0 && !replayCorpus(t, p) {
			return
		}
		if p.Gen == nil {
			return
		}
		var last *C
		var lastMsg string
		defer func() {
			if t.Failed() && last != nil {
				reportViolation(p.ID, p.Sub, *last, lastMsg)
			} else if t.Failed() {
				// a failure without a captured case is a generator / harness
				// problem (e.g. a reference self-check), never a violation
				outMu.Lock()
				fmt.Printf("HARNESS-FAILURE property=%s sub=%s (no failing case captured; see test output)\n", p.ID, p.Sub)
				outMu.Unlock()
			}
		}()
		n := Scale(p.Quick, p.Thorough)
		if n <= 0 {
			n = 100
		}
		if pct := os.Getenv("VERIF_CHECKS_PCT"); pct != "" {
			var f int
			fmt.Sscanf(pct, "%d", &f)
			if f > 0 {
				n = n * f / 100
				if n < 1 {
					n = 1
				}
			}
		}
		_ = flag.Set("rapid.checks", fmt.Sprint(n))
		Stat(p.ID).Enum("requested_rapid_checks."+p.Sub, n)
		passed := 0
		defer func() { Stat(p.ID).Enum("passed_rapid_checks."+p.Sub, passed) }()
		rapid.Check(t, func(rt *rapid.T) {
			c := p.Gen(rt)
			if msg := safeRun(p.Run, c); msg != "" {
				cc := c
				last, lastMsg = &cc, msg
				rt.Fatalf("%s", msg)
			}
			passed++
		})
	})
}

// replayCorpus runs every committed case of corpus/<ID>/<sub>-*.json. Returns
// false if an unexpected failure was reported.
func replayCorpus[C any](t *testing.T, p Prop[C]) bool {
	dir := filepath.Join(Root(), "corpus", p.ID)
	files, _ := filepath.Glob(filepath.Join(dir, p.Sub+"-*.json"))
	sort.Strings(files)
	ok := true
	for _, f := range files {
		b, err := os.ReadFile(f)
		if err != nil {
			t.Fatalf("corpus %s: %v", f, err)
		}
		var rf replayFile
		if err := json.Unmarshal(b, &rf); err != nil {
			t.Fatalf("corpus %s: %v", f, err)
		}
		var c C
		if err := json.Unmarshal(rf.Case, &c); err != nil {
			t.Fatalf("corpus %s: %v", f, err)
		}
		msg := safeRun(p.Run, c)
		rel, _ := filepath.Rel(Root(), f)
		kf := openFindingFor(rel)
		Stat(p.ID).Enum("corpus", 1)
		switch {
		case msg == "":
			if kf != nil {
				outMu.Lock()
				fmt.Printf("NOTE: property=%s known finding %q no longer reproduces (reproducer passes)\n", p.ID, kf.ID)
				outMu.Unlock()
			}
		case kf != nil && (kf.Match == "" || strings.Contains(msg, kf.Match)):
			outMu.Lock()
			fmt.Printf("KNOWN-FINDING: property=%s %s [%s]\n", p.ID, kf.What, kf.ID)
			outMu.Unlock()
			st := Stat(p.ID)
			st.mu.Lock()
			st.Known = append(st.Known, kf.ID)
			st.mu.Unlock()
		default:
			reportViolation(p.ID, p.Sub, c, msg)
			t.Errorf("corpus case %s fails: %s", f, msg)
			ok = false
		}
	}
	return ok
}

// Enumerate runs an exhaustive sub-grid as a subtest: each yields a case that is
// executed with run; the first failure is reported (and enumeration of this
// grid stops).
func Enumerate[C any](t *testing.T, p Prop[C], name string, each func(yield func(C) bool)) {
	register(p)
	if replayMode(t, p.ID, p.Sub) {
		return
	}
	if i, _ := Shard(); i != 0 {
		return
	}
	t.Run(p.Sub+"/"+name, func(t *testing.T) {
		n := 0
		each(func(c C) bool {
			n++
			if msg := safeRun(p.Run, c); msg != "" {
				reportViolation(p.ID, p.Sub, c, msg)
				t.Errorf("enumerated case fails: %s", msg)
				return false
			}
			return true
		})
		Stat(p.ID).Enum(name, n)
	})
}

// ReplayFile runs one replay file; returns failure text ("" = passes).
func ReplayFile(path string) (string, error) {
	b, err := os.ReadFile(path)
	if err != nil {
		return "", err
	}
	var rf replayFile
	if err := json.Unmarshal(b, &rf); err != nil {
		return "", err
	}
	regMu.Lock()
	fn := replayFn[rf.Property+"/"+rf.Sub]
	regMu.Unlock()
	if fn == nil {
		return "", fmt.Errorf("no sub-check %s/%s registered", rf.Property, rf.Sub)
	}
	return fn(rf.Case)
}

var replayDone = map[string]bool{}

// replayMode handles VERIF_REPLAY=<file>: the matching sub-check runs just that
// case; every other sub-check is skipped.
func replayMode(t *testing.T, id, sub string) bool {
	path := os.Getenv("VERIF_REPLAY")
	if path == "" {
		return false
	}
	b, err := os.ReadFile(path)
	if err != nil {
		t.Fatalf("replay: %v", err)
	}
	var rf replayFile
	if err := json.Unmarshal(b, &rf); err != nil {
		t.Fatalf("replay: %v", err)
	}
	regMu.Lock()
	done := replayDone[id+"/"+sub]
	replayDone[id+"/"+sub] = true
	regMu.Unlock()
	if rf.Property != id || rf.Sub != sub || done {
		return true
	}
	msg, err := ReplayFile(path)
	if err != nil {
		t.Fatalf("replay: %v", err)
	}
	outMu.Lock()
	defer outMu.Unlock()
	if msg == "" {
		fmt.Printf("REPLAY-PASS property=%s file=%s\n", id, path)
		return true
	}
	fmt.Printf("VIOLATION property=%s replay=%s\n  detail: [%s] %s\n", id, path, sub, msg)
	t.Errorf("replayed case fails: %s", msg)
	return true
}

// EnumerateSharded is Enumerate for grids large enough to be worth spreading
// over all shards: each receives (shard, nshards) and must yield only its part.
func EnumerateSharded[C any](t *testing.T, p Prop[C], name string, each func(shard, nshards int, yield func(C) bool)) {
	register(p)
	if replayMode(t, p.ID, p.Sub) {
		return
	}
	t.Run(p.Sub+"/"+name, func(t *testing.T) {
		n := 0
		i, ns := Shard()
		each(i, ns, func(c C) bool {
			n++
			if msg := safeRun(p.Run, c); msg != "" {
				reportViolation(p.ID, p.Sub, c, msg)
				t.Errorf("enumerated case fails: %s", msg)
				return false
			}
			return true
		})
		Stat(p.ID).Enum(name, n)
	})
}
