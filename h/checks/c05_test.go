package checks

import (
	"bytes"
	"fmt"
	"testing"

	"github.com/amzn/ion-go/ion"
	"pgregory.net/rapid"

	"verif/h/drive"
	"verif/h/gen"
	"verif/h/model"
	"verif/h/refbin"
	"verif/h/reftext"
)

// C05 — copying a Reader into a Writer preserves data across formats and
// symbol tables.

type C05Case struct {
	Doc     []byte    `json:"doc"`
	Catalog []SharedJ `json:"catalog,omitempty"`
	Dest    int       `json:"dest"` // 0 text, 1 pretty, 2 binary
	LST     bool      `json:"lst"`  // the source declares symbol tables / uses $n
	Src     string    `json:"src"`
}

// c05Source decodes the source with the reference decoder: the values it
// denotes, symbols by text.
func c05Source(c C05Case) ([]model.Value, error) {
	cat := refCatalog(c.Catalog)
	if isBinaryDoc(c.Doc) {
		res, err := refbin.Decode(c.Doc, refbin.Options{Catalog: cat})
		return res.Values, err
	}
	res, err := reftext.Parse(c.Doc, reftext.Options{Catalog: cat})
	return res.Values, err
}

func hasSymbols(vals []model.Value) bool {
	n := 0
	for _, v := range vals {
		v.Walk(func(x model.Value) {
			if x.Kind == model.Symbol && !x.IsNull {
				n++
			}
			n += len(x.Ann) + len(x.Fields)
		})
	}
	return n > 0
}

func runC05(c C05Case) string {
	st := Stat("C05")
	want, err := c05Source(c)
	if err != nil {
		harnessBug("C05: reference decoder rejects the generated source: %v\ndoc: %s", err, showDoc(c.Doc))
	}
	srcFormat := "text"
	if isBinaryDoc(c.Doc) {
		srcFormat = "binary"
	}
	st.Eval(c.LST && hasSymbols(want), model.DigestBytes(fmt.Sprintf("c05-%d-%v", c.Dest, c.Catalog), c.Doc),
		"source."+srcFormat, "dest."+modeNames[c.Dest], "src."+c.Src, map[bool]string{true: "source-declares-tables-or-$n"}[c.LST])
	st.Sample(func() string { return fmt.Sprintf("dest=%s source(%s)=%s", modeNames[c.Dest], c.Src, showDoc(c.Doc)) })
	var out bytes.Buffer
	cerr := drive.Guard(func() error {
		r := ion.NewReaderCat(bytes.NewReader(c.Doc), ionCatalog(c.Catalog))
		w := drive.NewWriter(drive.Mode(c.Dest), &out)
		if err := drive.Copy(r, w); err != nil {
			return err
		}
		return w.Finish()
	})
	desc := func() string {
		return fmt.Sprintf("\ndest=%s catalog=%+v\nsource: %s\ncopy:   %s", modeNames[c.Dest], c.Catalog, showDoc(c.Doc), showDoc(out.Bytes()))
	}
	if cerr != nil {
		return fmt.Sprintf("the copy loop fails on an accepted document: %v", firstLine(cerr.Error(), 300)) + desc()
	}
	var got []model.Value
	if c.Dest == 2 {
		res, err := refbin.Decode(out.Bytes(), refbin.Options{RequireIVM: true})
		if err != nil {
			return fmt.Sprintf("the copy is not valid, self-contained Ion binary: %v", err) + desc()
		}
		got = res.Values
	} else {
		res, err := reftext.Parse(out.Bytes(), reftext.Options{})
		if err != nil {
			return fmt.Sprintf("the copy is not valid, self-contained Ion text: %v", err) + desc()
		}
		got = res.Values
	}
	if d := model.DiffSeq(want, got); d != "" {
		return "the copy denotes different values: " + d + "\nsource denotes: " + model.SeqString(want) + "\ncopy denotes:   " + model.SeqString(got) + desc()
	}
	return ""
}

func genC05(t *rapid.T) C05Case {
	c := C05Case{Dest: gen.Intn(t, 3)}
	if gen.Chance(t, 65) {
		h := c10History(t, false, false)
		c.Doc, c.Catalog, c.LST, c.Src = h.Doc, h.Catalog, true, "history"
		return c
	}
	// plain documents: all types, spelling / encoding variety, ion-go writer output
	cfg := &gen.Cfg{MaxDepth: gen.Pick(t, []int{1, 2, 3}), AllowUnknown: true, Size: &gen.Size{}}
	vals := gen.SanitizeTop(gen.Seq(t, cfg, 4))
	switch gen.Intn(t, 3) {
	case 0:
		d := printDoc(vals, gen.RapidChooser{T: t})
		c.Doc, c.Src = d.Doc, "reference-text"
		for _, dim := range d.Dims {
			if dim == "lst.declared" || dim == "symbol.sid-spelling" {
				c.LST = true
			}
		}
	case 1:
		c.Doc, c.Src, c.LST = encodeDoc(vals, gen.RapidChooser{T: t}).Doc, "reference-binary", true
	default:
		ssts := genSSTs(t, 2)
		b, err := writeDoc(drive.Mode(gen.Intn(t, 3)), vals, nil, ionSSTs(ssts)...)
		if err != nil {
			b = printDoc(vals, gen.Canonical{}).Doc
			ssts = nil
		}
		c.Doc, c.Src, c.Catalog = b, "ion-go-writer", ssts
		c.LST = isBinaryDoc(b)
	}
	return c
}

func TestC05(t *testing.T) {
	p := Prop[C05Case]{ID: "C05", Sub: "copy", Gen: genC05, Run: runC05, Quick: 15000, Thorough: 300000}
	// sources with 300 distinct symbols: the destination writer hands out symbol
	// IDs around 128 and 256 for values, field names and annotations
	Enumerate(t, p, "many-symbols", func(yield func(C05Case) bool) {
		var vals []model.Value
		for i := 0; i < 300; i++ {
			sk := model.S(fmt.Sprintf("sym_%d", i))
			switch i % 3 {
			case 0:
				vals = append(vals, model.SymV(sk))
			case 1:
				vals = append(vals, model.StructV(model.Field{Name: sk, Val: model.Int64V(int64(i))}))
			default:
				vals = append(vals, model.Int64V(int64(i)).WithAnn(sk))
			}
		}
		// every symbol once more as a value, so that each ID is also written as one
		for i := 0; i < 300; i++ {
			vals = append(vals, model.SymV(model.S(fmt.Sprintf("sym_%d", i))))
		}
		for _, src := range [][]byte{printDoc(vals, nil).Doc, encodeDoc(vals, nil).Doc} {
			for dest := 0; dest < 3; dest++ {
				if !yield(C05Case{Doc: src, Dest: dest, LST: true, Src: "many-symbols"}) {
					return
				}
			}
		}
	})
	RunProp(t, p)
}

func init() {
	Describe("C05",
		"cases: (source document, catalog, destination mode): 65% stream histories from the C10 generator (version markers, replacing / appending local symbol tables, imports resolved against a catalog, symbols / field names / annotations referenced by any ID carrying the text, or $n in text), 35% plain documents of all types from the reference printer / encoder (with their own table declarations and $n spellings) or from ion-go's writers with shared tables; destination text, pretty or binary with no shared tables. Non-trivial: the source declares a symbol table or uses $n and contains at least one symbol-bearing value. Distinct by digest(source bytes, catalog, destination).",
		"oracle: round trip through the documented copy loop (README writeFromReaderToWriter completed for all types: FieldName if non-nil, Annotations if any, WriteNullType for nulls, ints by IntSize, the reader's token to WriteSymbol), then the *reference* decoder (no catalog: the copy must be self-contained) on the destination bytes; the values must equal what the reference decoder says the source denotes, symbols compared by text",
		"symbols with unknown text are only generated as $0 (what a copy should do with a placeholder ID is outside the statement); sources are accepted documents only",
	)
}
