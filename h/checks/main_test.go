package checks

import (
	"fmt"
	"os"
	"testing"
)

func TestMain(m *testing.M) {
	if err := LoadFindings(); err != nil {
		fmt.Fprintf(os.Stderr, "harness: cannot load known_findings.json: %v\n", err)
		os.Exit(2)
	}
	code := m.Run()
	if p := os.Getenv("VERIF_STATS"); p != "" {
		if err := WriteStats(p); err != nil {
			fmt.Fprintf(os.Stderr, "harness: cannot write stats: %v\n", err)
			os.Exit(2)
		}
	}
	os.Exit(code)
}
