package checks

import (
	"bytes"
	"fmt"
	"math"
	"math/big"
	"reflect"
	"sort"
	"strings"
	"testing"
	"testing/iotest"

	"github.com/amzn/ion-go/ion"
	"pgregory.net/rapid"

	"verif/h/drive"
	"verif/h/gen"
	"verif/h/model"
	"verif/h/refbin"
)

// C17 — Unmarshal either fills the target faithfully or returns an error.

type C17Case struct {
	T      drive.TypeDesc `json:"t"`
	Val    model.Value    `json:"val"`
	Binary bool           `json:"binary"`
	// Preload > 0: a slice target starts out holding Preload zero elements
	// (len = cap = Preload) instead of nil; what is stored must not depend on it
	Preload int `json:"preload,omitempty"`
	Via     int `json:"via"` // 0 Unmarshal, 1 UnmarshalString (text), 2 Decoder.DecodeTo, 3 UnmarshalFrom, 4 NewTextDecoder, 5 System.Unmarshal, 6 System.UnmarshalString (text)
}

// verdict is what the reference conversion table allows for one cell.
type verdict struct {
	store *model.Value // the value that may (or must) be stored; nil: nothing may be stored
	errOK bool         // an error is an allowed outcome
	any   bool         // undocumented convenience: any outcome but a panic
}

func must(v model.Value) verdict   { return verdict{store: &v} }
func either(v model.Value) verdict { return verdict{store: &v, errOK: true} }

var errOnly = verdict{errOK: true}
var anything = verdict{any: true, errOK: true}

func fitsInt(v *big.Int, k string) bool {
	lo, hi := intRange(k)
	return v.Cmp(lo) >= 0 && v.Cmp(hi) <= 0
}

// lastWins drops every field that a later field of the same (known) name
// overrides: a Go map has one entry per key, the last one decoded.
func lastWins(fs []model.Field) []model.Field {
	var out []model.Field
	for i, f := range fs {
		overridden := false
		for _, g := range fs[i+1:] {
			if f.Name.Known && g.Name.Known && f.Name.Text == g.Name.Text {
				overridden = true
			}
		}
		if !overridden {
			out = append(out, f)
		}
	}
	return out
}

// ifaceNorm is how a value looks after a trip through interface{}: sexp becomes
// a list, clob a blob, annotations are dropped.
func ifaceNorm(v model.Value) model.Value {
	out := v
	out.Ann = nil
	if v.IsNull {
		return model.NullOf(model.Null)
	}
	switch v.Kind {
	case model.Sexp:
		out.Kind = model.List
	case model.Clob:
		out.Kind = model.Blob
	}
	out.Elems = nil
	for _, e := range v.Elems {
		out.Elems = append(out.Elems, ifaceNorm(e))
	}
	out.Fields = nil
	for _, f := range lastWins(v.Fields) {
		out.Fields = append(out.Fields, model.Field{Name: f.Name, Val: ifaceNorm(f.Val)})
	}
	return out
}

func zeroModel(d drive.TypeDesc) model.Value {
	return drive.ModelOf(reflect.Zero(drive.GoType(d)), drive.HNone)
}

// conv is the reference conversion table: what Unmarshal of Ion value v into a
// target of type d may do.
func conv(d drive.TypeDesc, v model.Value) verdict {
	if v.IsNull {
		// a null leaves / makes the target its zero value (nil pointer, empty
		// string, 0); an error is tolerated as well
		return either(zeroModel(d))
	}
	switch d.K {
	case "bool":
		if v.Kind == model.Bool {
			return must(model.BoolV(v.Bool))
		}
	case "int", "int8", "int16", "int32", "int64", "uint", "uint8", "uint16", "uint32", "uint64", "uintptr":
		if v.Kind == model.Int && fitsInt(v.Int, d.K) {
			return must(model.IntV(v.Int))
		}
	case "float32":
		if v.Kind == model.Float {
			f := v.Float
			if !math.IsInf(f, 0) && !math.IsNaN(f) && math.Abs(f) > math.MaxFloat32 {
				return errOnly
			}
			return must(model.FloatV(float64(float32(f))))
		}
	case "float64":
		if v.Kind == model.Float {
			return must(model.FloatV(v.Float))
		}
	case "string":
		switch {
		case v.Kind == model.String:
			return must(model.StrV(v.Text))
		case v.Kind == model.Symbol && v.Sym.Known:
			return must(model.StrV(v.Sym.Text))
		}
	case "bytes":
		switch v.Kind {
		case model.Blob, model.Clob:
			return must(model.BlobV(v.Bytes))
		case model.List, model.Sexp:
			// a list of small integers fills a []byte elementwise
			r := convSeq(drive.TypeDesc{K: "uint8"}, v, -1)
			if r.store != nil {
				var bs []byte
				for _, e := range r.store.Elems {
					bs = append(bs, byte(e.Int.Int64()))
				}
				b := model.BlobV(bs)
				r.store = &b
			}
			return r
		}
	case "timestamp":
		if v.Kind == model.Timestamp {
			return must(model.TSV(v.TS))
		}
	case "time":
		if v.Kind == model.Timestamp {
			return must(model.TSV(v.TS)) // compared as an instant
		}
	case "decimal":
		switch v.Kind {
		case model.Decimal:
			return must(model.Value{Kind: model.Decimal, Dec: v.Dec})
		case model.Float:
			return anything // undocumented convenience (shortest decimal rendering of the float)
		}
	case "bigint":
		if v.Kind == model.Int {
			return must(model.IntV(v.Int))
		}
	case "symtok":
		if v.Kind == model.Symbol {
			return must(model.SymV(v.Sym))
		}
	case "iface", "ifacenil":
		// ifacenil: an interface{} holding a typed nil pointer is like an empty one
		return must(ifaceNorm(v))
	case "stringer":
		return errOnly
	case "ptr", "ifaceptr":
		// ifaceptr: an interface{} that already holds a non-nil pointer is decoded
		// into what the pointer points to (as encoding/json does)
		return conv(*d.Elem, v)
	case "slice":
		if v.Kind == model.List || v.Kind == model.Sexp {
			return convSeq(*d.Elem, v, -1)
		}
	case "array":
		switch {
		case v.Kind == model.List || v.Kind == model.Sexp:
			return convSeq(*d.Elem, v, d.N)
		case (v.Kind == model.Blob || v.Kind == model.Clob) && d.Elem.K == "uint8":
			// copies what fits, zero-fills the rest (like encoding/json): tolerated
			var es []model.Value
			for i := 0; i < d.N; i++ {
				b := byte(0)
				if i < len(v.Bytes) {
					b = v.Bytes[i]
				}
				es = append(es, model.Int64V(int64(b)))
			}
			r := either(model.ListV(es...))
			if len(v.Bytes) <= d.N {
				r.errOK = false
			}
			return r
		}
	case "map":
		if v.Kind == model.Struct {
			out := model.StructV()
			r := verdict{}
			for _, f := range lastWins(v.Fields) {
				fv := conv(*d.Elem, f.Val)
				if fv.any {
					return anything
				}
				r.errOK = r.errOK || fv.errOK
				if fv.store == nil {
					return errOnly
				}
				out.Fields = append(out.Fields, model.Field{Name: f.Name, Val: *fv.store})
			}
			r.store = &out
			return r
		}
	case "struct":
		if isWrapper(d) && len(d.Fields) != 2 {
			// an annotations field next to several (or no) other fields is not the
			// documented two-field wrapper: only an Ion struct can fill it
			if v.Kind == model.Struct {
				return anything
			}
			return errOnly
		}
		if isWrapper(d) {
			if v.Kind == model.Struct {
				return anything // indistinguishable from the wrapper itself
			}
			inner := v
			inner.Ann = nil
			r := conv(d.Fields[0].T, inner)
			if r.store != nil {
				s := *r.store
				s.Ann = append(append([]model.Sym{}, v.Ann...), s.Ann...)
				r.store = &s
			}
			return r
		}
		if v.Kind == model.Struct {
			out := model.StructV()
			r := verdict{}
			ffs := flatFields(d)
			exact := map[string]bool{}
			for _, fd := range ffs {
				exact[ionFieldName(fd)] = true
			}
			for _, fd := range ffs {
				name := ionFieldName(fd)
				val := zeroModel(fd.T)
				for _, f := range v.Fields {
					if !f.Name.Known || f.Name.Text != name {
						if f.Name.Known && !exact[f.Name.Text] && strings.EqualFold(f.Name.Text, name) {
							return anything // case-insensitive fallback (no exact match): undocumented
						}
						continue
					}
					fv := conv(fd.T, f.Val)
					if fv.any {
						return anything
					}
					r.errOK = r.errOK || fv.errOK
					if fv.store == nil {
						return errOnly
					}
					val = *fv.store
				}
				out.Fields = append(out.Fields, model.Field{Name: model.S(name), Val: val})
			}
			r.store = &out
			return r
		}
	}
	return errOnly
}

// flatFields lists the fields of a struct target with embedded structs flattened.
func flatFields(d drive.TypeDesc) []drive.FieldDesc {
	var out []drive.FieldDesc
	for _, f := range d.Fields {
		if f.Embedded && f.T.K == "struct" {
			out = append(out, flatFields(f.T)...)
			continue
		}
		out = append(out, f)
	}
	return out
}

// convSeq converts a list / sexp elementwise; n >= 0: into an array of length n.
func convSeq(elem drive.TypeDesc, v model.Value, n int) verdict {
	out := model.ListV()
	r := verdict{}
	for i, e := range v.Elems {
		if n >= 0 && i >= n {
			r.errOK = true // surplus elements are dropped (like encoding/json): tolerated
			break
		}
		ev := conv(elem, e)
		if ev.any {
			return anything
		}
		r.errOK = r.errOK || ev.errOK
		if ev.store == nil {
			return errOnly
		}
		out.Elems = append(out.Elems, *ev.store)
	}
	for n >= 0 && len(out.Elems) < n {
		out.Elems = append(out.Elems, zeroModel(elem))
	}
	r.store = &out
	return r
}

func renderValue(v model.Value, binary bool, c gen.Chooser) []byte {
	if binary {
		return encodeDoc([]model.Value{v}, c).Doc
	}
	return printDoc([]model.Value{v}, c).Doc
}

// c17BadTargets are arguments Unmarshal cannot fill: the call must come back
// with an error, never a panic (and never nil for the first three).
var c17BadTargets = map[string]func() (target interface{}, mustErr bool){
	"bad:nil":         func() (interface{}, bool) { return nil, true },
	"bad:non-pointer": func() (interface{}, bool) { return 5, true },
	"bad:nil-pointer": func() (interface{}, bool) { return (*int)(nil), true },
	"bad:nil-struct-pointer": func() (interface{}, bool) {
		return (*struct{ A int })(nil), true
	},
	"bad:chan":          func() (interface{}, bool) { return new(chan int), false },
	"bad:func":          func() (interface{}, bool) { return new(func()), false },
	"bad:complex":       func() (interface{}, bool) { return new(complex128), false },
	"bad:map-int-key":   func() (interface{}, bool) { return new(map[int]string), false },
	"bad:unexported":    func() (interface{}, bool) { return new(struct{ a, b int }), false },
	"bad:slice-of-chan": func() (interface{}, bool) { return new([]chan int), false },
	"bad:non-pointer-struct": func() (interface{}, bool) {
		return struct{ A int }{}, true
	},
}

// c17celsius is an unexported named non-struct type; embedded, it is not a
// field Unmarshal may touch.
type c17celsius float64

type c17celsius2 int

type c17EmbScalar struct {
	c17celsius
	*c17celsius2
	Station string
	N       int
}

// runC17EmbScalar: a target embedding unexported non-struct types (by value
// and by pointer): Ion fields spelled like those types are ignored, the exported
// fields are filled, nothing panics.
func runC17EmbScalar(c C17Case) string {
	st := Stat("C17")
	data := renderValue(c.Val, c.Binary, nil)
	st.Eval(true, model.DigestBytes(fmt.Sprintf("c17 embscalar %v %d", c.Binary, c.Via), []byte(c.Val.String())), "cell.embedded-unexported-scalar", "ion."+c.Val.Kind.String())
	st.Sample(func() string {
		return fmt.Sprintf("%s into a struct embedding unexported scalar types", c.Val.String())
	})
	return drive.Guard2(func() string {
		var target c17EmbScalar
		err := ion.Unmarshal(data, &target)
		if c.Val.Kind != model.Struct || c.Val.IsNull {
			return ""
		}
		wantStation, wantN, judged := "", int64(0), true
		for _, f := range c.Val.Fields {
			if !f.Name.Known {
				continue
			}
			switch {
			case f.Name.Text == "Station":
				if f.Val.Kind == model.String && !f.Val.IsNull {
					wantStation = f.Val.Text
				} else if !f.Val.IsNull {
					judged = false
				}
			case f.Name.Text == "N":
				if f.Val.Kind == model.Int && !f.Val.IsNull && f.Val.Int.IsInt64() {
					wantN = f.Val.Int.Int64()
				} else if !f.Val.IsNull {
					judged = false
				}
			case strings.EqualFold(f.Name.Text, "Station") || strings.EqualFold(f.Name.Text, "N"):
				judged = false // case-insensitive fallback: undocumented
			}
		}
		if !judged {
			return ""
		}
		if err != nil {
			return fmt.Sprintf("Unmarshal of %s into a struct embedding unexported scalar types fails: %v", c.Val.String(), err)
		}
		if target.Station != wantStation || int64(target.N) != wantN || target.c17celsius != 0 || target.c17celsius2 != nil {
			return fmt.Sprintf("Unmarshal of %s into a struct embedding unexported scalar types stored %+v", c.Val.String(), target)
		}
		return ""
	})
}

// Named types and the wrapper shape the documentation shows.
type c17Key string
type c17Octet uint8
type c17DocWrap struct {
	Value   int
	AnyName []string `ion:",annotations"`
}
type c17BadWrap struct {
	Value   int
	AnyName []int `ion:",annotations"`
}

// runC17Named: targets that reflect.StructOf cannot build: a map keyed by a
// named string type, an array of a named byte type, the annotation wrapper of the
// Unmarshal documentation (annotations as []string), a wrapper whose annotations
// field has a type annotations cannot go into.
func runC17Named(c C17Case) string {
	st := Stat("C17")
	st.Eval(true, model.DigestBytes(fmt.Sprintf("c17 named %v %d", c.Binary, c.Via), []byte(c.Val.String())), "cell.named-types", "ion."+c.Val.Kind.String())
	st.Sample(func() string { return fmt.Sprintf("%s into named-type targets", c.Val.String()) })
	data := renderValue(c.Val, c.Binary, nil)
	return drive.Guard2(func() string {
		v := c.Val
		// map[c17Key]int
		var m map[c17Key]int
		err := ion.Unmarshal(data, &m)
		if want := conv(drive.TypeDesc{K: "map", Elem: &drive.TypeDesc{K: "int"}}, v); !want.any {
			if err != nil && !want.errOK {
				return fmt.Sprintf("Unmarshal of %s into map[Key]int (Key a named string type) fails: %v", v.String(), err)
			}
			if err == nil {
				if want.store == nil {
					return fmt.Sprintf("Unmarshal of %s into map[Key]int: no error", v.String())
				}
				got := map[string]int{}
				for k, x := range m {
					got[string(k)] = x
				}
				if d := looseDiff(*want.store, drive.ModelOf(reflect.ValueOf(got), drive.HNone)); d != "" {
					return fmt.Sprintf("Unmarshal of %s into map[Key]int stored %v: %s", v.String(), m, d)
				}
			}
		}
		// [3]c17Octet
		var a [3]c17Octet
		err = ion.Unmarshal(data, &a)
		if (v.Kind == model.Blob || v.Kind == model.Clob) && !v.IsNull && len(v.Bytes) <= 3 {
			if err != nil {
				return fmt.Sprintf("Unmarshal of %s into [3]Octet (Octet a named byte type) fails: %v", v.String(), err)
			}
			for i := range a {
				w := byte(0)
				if i < len(v.Bytes) {
					w = v.Bytes[i]
				}
				if byte(a[i]) != w {
					return fmt.Sprintf("Unmarshal of %s into [3]Octet stored %v", v.String(), a)
				}
			}
		}
		// the documented wrapper
		var dw c17DocWrap
		err = ion.Unmarshal(data, &dw)
		if v.Kind == model.Int && !v.IsNull && fitsInt(v.Int, "int") {
			if err != nil {
				return fmt.Sprintf("Unmarshal of %s into the documented wrapper struct{Value int; AnyName []string `ion:\",annotations\"`} fails: %v", v.String(), err)
			}
			var wantAnn []string
			for _, an := range v.Ann {
				if !an.Known {
					return "" // an annotation without text has no string
				}
				wantAnn = append(wantAnn, an.Text)
			}
			if int64(dw.Value) != v.Int.Int64() || fmt.Sprint(dw.AnyName) != fmt.Sprint(wantAnn) {
				return fmt.Sprintf("Unmarshal of %s into the documented wrapper stored %+v", v.String(), dw)
			}
		}
		// annotations cannot go into []int: an error, not a panic (Guard2 catches the panic)
		var bw c17BadWrap
		if err = ion.Unmarshal(data, &bw); err == nil && len(v.Ann) > 0 {
			return fmt.Sprintf("Unmarshal of %s into a wrapper whose annotations field is []int: no error", v.String())
		}
		// interface{} given an empty list: ion-go's own tests pin a nil
		// []interface{} for Decode of [] (not judged)
		return ""
	})
}

func runC17Bad(c C17Case) string {
	st := Stat("C17")
	data := renderValue(c.Val, c.Binary, nil)
	st.Eval(true, model.DigestBytes(fmt.Sprintf("c17 %s %v %d", c.T.K, c.Binary, c.Via), []byte(c.Val.String())), "cell.bad-target", "target."+c.T.K, "ion."+c.Val.Kind.String())
	st.Sample(func() string { return fmt.Sprintf("%s into %s", c.Val.String(), c.T.K) })
	return drive.Guard2(func() string {
		target, mustErr := c17BadTargets[c.T.K]()
		var err error
		if c.Via == 2 {
			err = ion.NewDecoder(ion.NewReaderBytes(data)).DecodeTo(target)
		} else {
			err = ion.Unmarshal(data, target)
		}
		if err == nil && mustErr {
			return fmt.Sprintf("no error for a target that cannot be filled\nIon value: %s\ntarget: %s", c.Val.String(), c.T.K)
		}
		return ""
	})
}

func runC17(c C17Case) string {
	if strings.HasPrefix(c.T.K, "bad:") {
		return runC17Bad(c)
	}
	if c.T.K == "special:embscalar" {
		return runC17EmbScalar(c)
	}
	if c.T.K == "special:named" {
		return runC17Named(c)
	}
	st := Stat("C17")
	typ := drive.GoType(c.T)
	want := conv(c.T, c.Val)
	data := renderValue(c.Val, c.Binary, nil)
	cell := "must-store"
	switch {
	case want.any:
		cell = "either(any)"
	case want.store == nil:
		cell = "must-error"
	case want.errOK:
		cell = "either"
	}
	diag := cell == "must-store" && !c.Val.IsNull
	st.Eval(!diag || gen.IsBoundaryInt(orZero(c.Val.Int)) || c.Val.IsNull, model.DigestBytes(fmt.Sprintf("c17 %s %v %d %d", typ.String(), c.Binary, c.Via, c.Preload), []byte(c.Val.String())),
		"cell."+cell, "target."+strings.SplitN(c.T.K, ":", 2)[0], "ion."+c.Val.Kind.String(), map[bool]string{true: "binary", false: "text"}[c.Binary])
	st.Sample(func() string { return fmt.Sprintf("%s into %s (%s)", c.Val.String(), typ.String(), cell) })
	desc := func() string {
		return fmt.Sprintf("\nIon value: %s (%s)\ntarget type: %s\nvia: %s", c.Val.String(), map[bool]string{true: "binary", false: "text"}[c.Binary], typ.String(), c17Vias[c.Via])
	}
	return drive.Guard2(func() string {
		target := reflect.New(typ)
		if c.T.K == "ifaceptr" {
			target.Elem().Set(reflect.New(drive.GoType(*c.T.Elem)))
		}
		if c.T.K == "ifacenil" {
			target.Elem().Set(reflect.Zero(reflect.PtrTo(drive.GoType(*c.T.Elem))))
		}
		if c.Preload > 0 && typ.Kind() == reflect.Slice {
			target.Elem().Set(reflect.MakeSlice(typ, c.Preload, c.Preload))
		}
		if c.Preload > 0 && typ.Kind() == reflect.Array {
			// an array target that is not all zero to begin with
			for i := 0; i < typ.Len(); i++ {
				e := target.Elem().Index(i)
				switch e.Kind() {
				case reflect.Int, reflect.Int8, reflect.Int16, reflect.Int32, reflect.Int64:
					e.SetInt(int64(7 + i))
				case reflect.Uint, reflect.Uint8, reflect.Uint16, reflect.Uint32, reflect.Uint64, reflect.Uintptr:
					e.SetUint(uint64(200 + i))
				case reflect.Float32, reflect.Float64:
					e.SetFloat(2.5)
				case reflect.String:
					e.SetString("stale")
				case reflect.Bool:
					e.SetBool(true)
				}
			}
		}
		var err error
		switch c.Via {
		case 1:
			err = ion.UnmarshalString(string(data), target.Interface())
		case 2:
			err = ion.NewDecoder(ion.NewReaderBytes(data)).DecodeTo(target.Interface())
		case 3:
			err = ion.UnmarshalFrom(ion.NewReader(bytes.NewReader(data)), target.Interface())
		case 4:
			err = ion.NewTextDecoder(iotest.OneByteReader(bytes.NewReader(data))).DecodeTo(target.Interface())
		case 5:
			err = ion.System{Catalog: ion.NewCatalog()}.Unmarshal(data, target.Interface())
		case 6:
			err = ion.System{Catalog: ion.NewCatalog()}.UnmarshalString(string(data), target.Interface())
		default:
			err = ion.Unmarshal(data, target.Interface())
		}
		if want.any {
			return ""
		}
		if err != nil {
			if want.errOK {
				return ""
			}
			return fmt.Sprintf("returns an error for a value the target can represent: %v", err) + desc()
		}
		drive.TimeAsInstant = c.T.K == "time" || strings.Contains(typ.String(), "time.Time")
		got := drive.ModelOf(target.Elem(), drive.HNone)
		var exp model.Value
		if want.store != nil {
			exp = *want.store
			if drive.TimeAsInstant {
				exp = instantOnly(exp)
			}
		}
		drive.TimeAsInstant = false
		if want.store == nil {
			return fmt.Sprintf("no error although the target cannot represent the value; the target now denotes %s", got.String()) + desc()
		}
		if d := looseDiff(exp, got); d != "" {
			return fmt.Sprintf("no error, but the stored value does not represent the Ion value: %s\nstored value denotes: %s\nexpected:             %s", d, got.String(), exp.String()) + desc()
		}
		return ""
	})
}

// instantOnly rewrites timestamps the way ModelOf describes a time.Time when
// compared as an instant: UTC, nanosecond precision.
func instantOnly(v model.Value) model.Value {
	if v.Kind == model.Timestamp && !v.IsNull {
		ts := v.TS
		if ts.Prec < model.PMinute {
			ts.OffsetKnown, ts.Offset = true, 0
		}
		if ts.Month == 0 {
			ts.Month = 1
		}
		if ts.Day == 0 {
			ts.Day = 1
		}
		if !ts.OffsetKnown {
			ts.OffsetKnown, ts.Offset = true, 0
		}
		tm := drive.GoTime(ts, "X")
		out := drive.ModelOf(reflect.ValueOf(tm), drive.HNone)
		out.Ann = v.Ann
		return out
	}
	out := v
	out.Elems = nil
	for _, e := range v.Elems {
		out.Elems = append(out.Elems, instantOnly(e))
	}
	out.Fields = nil
	for _, f := range v.Fields {
		out.Fields = append(out.Fields, model.Field{Name: f.Name, Val: instantOnly(f.Val)})
	}
	return out
}

func orZero(b *big.Int) *big.Int {
	if b == nil {
		return new(big.Int)
	}
	return b
}

// ---- exemplars and targets

func c17Ints() []model.Value {
	var out []model.Value
	for _, s := range []string{"0", "1", "-1", "127", "128", "-128", "-129", "255", "256", "32767", "32768", "-32768", "-32769", "65535", "65536",
		"2147483647", "2147483648", "-2147483648", "-2147483649", "4294967295", "4294967296", "9223372036854775807", "9223372036854775808",
		"-9223372036854775808", "-9223372036854775809", "18446744073709551615", "18446744073709551616", "-18446744073709551616", "340282366920938463463374607431768211456"} {
		out = append(out, model.IntV(bigOf(s)))
	}
	return out
}

func c17Exemplars() []model.Value {
	out := c17Ints()
	for k := model.Null; k <= model.Struct; k++ {
		out = append(out, model.NullOf(k))
	}
	out = append(out, model.BoolV(true), model.BoolV(false))
	for _, f := range []float64{0, math.Copysign(0, -1), 1.5, -2.5, math.MaxFloat32, -math.MaxFloat32, math.MaxFloat32 * 1.0000001, math.MaxFloat32 * 2, -1e39, 1e300, math.MaxFloat64,
		math.SmallestNonzeroFloat32, math.SmallestNonzeroFloat32 / 4, math.SmallestNonzeroFloat64, math.Inf(1), math.Inf(-1), math.NaN(), 16777217, 0.1} {
		out = append(out, model.FloatV(f))
	}
	out = append(out, model.DecV(bigOf("15"), -1, false), model.DecV(bigOf("0"), 0, true), model.DecV(bigOf("123456789012345678901234567890"), 20, false), model.DecV(bigOf("-1"), 0, false))
	out = append(out, model.TSV(model.TS{Year: 2020, Month: 2, Day: 29, Hour: 23, Min: 59, Sec: 58, Nanos: 120000000, FracDigits: 2, Prec: model.PSecond, OffsetKnown: true, Offset: -480}),
		model.TSV(model.TS{Year: 2001, Month: 1, Day: 1, Prec: model.PYear}), model.TSV(model.TS{Year: 9999, Month: 12, Day: 31, Hour: 23, Min: 59, Prec: model.PMinute}),
		model.TSV(model.TS{Year: 1, Month: 1, Day: 1, Hour: 0, Min: 0, Sec: 0, Prec: model.PSecond, OffsetKnown: true}))
	out = append(out, model.SymV(model.S("abc")), model.SymV(model.S("")), model.SymV(model.Unknown), model.SymV(model.S("null")), model.SymV(model.S("$ion")))
	out = append(out, model.StrV(""), model.StrV("abc"), model.StrV("12"), model.StrV("true"), model.StrV("héllo😀"))
	out = append(out, model.BlobV(nil), model.BlobV([]byte{1, 2, 3}), model.BlobV([]byte{1, 2, 3, 4, 5, 6}), model.ClobV([]byte("abc")), model.ClobV(nil))
	one, two := model.Int64V(1), model.Int64V(2)
	out = append(out, model.ListV(), model.ListV(one, two), model.ListV(one, two, model.Int64V(3), model.Int64V(300)), model.ListV(one, model.StrV("a")), model.ListV(model.ListV(one)), model.SexpV(one, two), model.SexpV(),
		model.ListV(model.NullOf(model.Int), one), model.ListV(model.StrV("a"), model.StrV("b")), model.ListV(model.Int64V(-1)))
	out = append(out, model.StructV(), model.StructV(model.Field{Name: model.S("F"), Val: one}), model.StructV(model.Field{Name: model.S("f"), Val: one}),
		model.StructV(model.Field{Name: model.S("F"), Val: one}, model.Field{Name: model.S("G"), Val: two}), model.StructV(model.Field{Name: model.S("F"), Val: model.StrV("x")}),
		model.StructV(model.Field{Name: model.S("F"), Val: model.IntV(bigOf("4294967296"))}), model.StructV(model.Field{Name: model.S("k"), Val: model.ListV(one)}),
		model.StructV(model.Field{Name: model.S("F"), Val: model.NullOf(model.String)}),
		model.StructV(model.Field{Name: model.S("P0"), Val: model.Int64V(7)}, model.Field{Name: model.S("P1"), Val: model.StrV("s")}, model.Field{Name: model.S("Q1"), Val: model.Int64V(9)}),
		model.StructV(model.Field{Name: model.S("P0"), Val: model.Int64V(7)}),
		// repeated field names: every field is decoded, the last occurrence wins
		model.StructV(model.Field{Name: model.S("X"), Val: model.Int64V(1)}, model.Field{Name: model.S("X"), Val: model.Int64V(2)}, model.Field{Name: model.S("Y"), Val: model.Int64V(3)}),
		model.StructV(model.Field{Name: model.S("X"), Val: model.Int64V(1)}, model.Field{Name: model.S("Y"), Val: model.Int64V(2)}, model.Field{Name: model.S("X"), Val: model.Int64V(7)}),
		model.StructV(model.Field{Name: model.S("F"), Val: model.Int64V(1)}, model.Field{Name: model.S("F"), Val: model.Int64V(5)}, model.Field{Name: model.S("g"), Val: model.StrV("s")}),
		model.StructV(model.Field{Name: model.S("ID"), Val: model.Int64V(7)}), model.StructV(model.Field{Name: model.S("Id"), Val: model.Int64V(1)}, model.Field{Name: model.S("ID"), Val: model.Int64V(2)}),
		model.StructV(model.Field{Name: model.S("KEY"), Val: model.StrV("u")}, model.Field{Name: model.S("Key"), Val: model.StrV("m")}), model.StructV(model.Field{Name: model.S("Key"), Val: model.StrV("m")}), model.StructV(model.Field{Name: model.S("F"), Val: model.StructV(model.Field{Name: model.S("F"), Val: one})}))
	return out
}

func td(k string) drive.TypeDesc { return drive.TypeDesc{K: k} }

func c17Targets() []drive.TypeDesc {
	var out []drive.TypeDesc
	scal := []string{"bool", "int", "int8", "int16", "int32", "int64", "uint", "uint8", "uint16", "uint32", "uint64", "uintptr", "float32", "float64", "string", "bytes",
		"timestamp", "time", "decimal", "bigint", "symtok", "iface", "stringer"}
	for _, s := range scal {
		out = append(out, td(s))
	}
	u8 := td("uint8")
	out = append(out, drive.TypeDesc{K: "array", Elem: &u8, N: 4})
	wrap := func(k string, e drive.TypeDesc, n int) drive.TypeDesc { return drive.TypeDesc{K: k, Elem: &e, N: n} }
	for _, s := range []string{"int8", "uint16", "string", "iface", "float32", "bool", "bigint"} {
		e := td(s)
		out = append(out, wrap("ptr", e, 0), wrap("ptr", wrap("ptr", e, 0), 0), wrap("slice", e, 0), wrap("array", e, 2), wrap("map", e, 0),
			drive.TypeDesc{K: "struct", Fields: []drive.FieldDesc{{Name: "F", T: e}}},
			drive.TypeDesc{K: "struct", Fields: []drive.FieldDesc{{Name: "V", T: e}, {Name: "Ann", Tag: ",annotations", T: td("anntokens")}}})
	}
	ann := drive.FieldDesc{Name: "Tags", Tag: ",annotations", T: td("anntokens")}
	out = append(out, drive.TypeDesc{K: "struct", Fields: []drive.FieldDesc{{Name: "X", T: td("int")}, {Name: "Y", T: td("int")}, ann}},
		drive.TypeDesc{K: "struct", Fields: []drive.FieldDesc{{Name: "X", T: td("iface")}, {Name: "Y", T: td("string")}, {Name: "Z", T: td("bool")}, ann}},
		drive.TypeDesc{K: "struct", Fields: []drive.FieldDesc{ann}})
	// fields promoted through three levels of embedded structs
	chain := drive.TypeDesc{K: "struct", Fields: []drive.FieldDesc{{Name: "P0", T: td("int")}, {Name: "P1", T: td("string")}, {Name: "P2", T: td("int8")}}}
	for l := 0; l < 3; l++ {
		chain = drive.TypeDesc{K: "struct", Fields: []drive.FieldDesc{{Name: "Emb" + string(rune('0'+l)), T: chain, Embedded: true}, {Name: "Q" + string(rune('0'+l)), T: td("int")}}}
	}
	out = append(out, chain)
	// two fields whose names differ only by case: an exact match must win
	out = append(out, drive.TypeDesc{K: "struct", Fields: []drive.FieldDesc{{Name: "Id", T: td("int")}, {Name: "ID", T: td("int")}}},
		drive.TypeDesc{K: "struct", Fields: []drive.FieldDesc{{Name: "A", Tag: "key", T: td("string")}, {Name: "B", Tag: "Key", T: td("string")}, {Name: "C", Tag: "KEY", T: td("string")}}})
	// interface{} targets that already hold a pointer
	for _, e := range []drive.TypeDesc{td("int8"), td("string"), td("bigint"), td("iface"), wrap("ptr", td("uint16"), 0), wrap("slice", td("int"), 0), wrap("map", td("string"), 0),
		{K: "struct", Fields: []drive.FieldDesc{{Name: "F", T: td("int32")}, {Name: "G", Tag: "g", T: td("string")}}}} {
		out = append(out, wrap("ifaceptr", e, 0))
	}
	// interface{} targets that hold a typed nil pointer
	out = append(out, wrap("ifacenil", td("int"), 0), wrap("ifacenil", drive.TypeDesc{K: "struct", Fields: []drive.FieldDesc{{Name: "F", T: td("int32")}}}, 0),
		drive.TypeDesc{K: "struct", Fields: []drive.FieldDesc{{Name: "X", T: wrap("ifacenil", td("string"), 0)}, {Name: "Y", T: td("int")}}})
	three := drive.TypeDesc{K: "struct", Fields: []drive.FieldDesc{{Name: "X", T: td("int")}, {Name: "Y", T: td("int")}, ann}}
	out = append(out, wrap("slice", three, 0))
	out = append(out, wrap("slice", wrap("slice", td("int"), 0), 0), wrap("map", wrap("slice", td("int"), 0), 0),
		drive.TypeDesc{K: "struct", Fields: []drive.FieldDesc{{Name: "F", T: td("int32")}, {Name: "G", Tag: "g", T: td("string")}}})
	return out
}

func genC17(t *rapid.T) C17Case {
	c := C17Case{Binary: gen.Chance(t, 50), Via: gen.Intn(t, 7)}
	c.T = gen.Pick(t, c17Targets())
	switch gen.Intn(t, 4) {
	case 0:
		c.Val = gen.Pick(t, c17Exemplars())
	case 1:
		// a random integer against an integer-ish target
		c.Val = model.IntV(gen.BigInt(t))
	default:
		cfg := &gen.Cfg{MaxDepth: 2, AllowUnknown: true, NoAnn: true, Size: &gen.Size{}}
		c.Val = gen.Value(t, cfg)
		// maps and interface{} drop fields whose name has no text and collapse
		// duplicates: keep struct field names known and unique
		c.Val = uniqueFields(c.Val)
	}
	if isWrapper(c.T) && gen.Chance(t, 70) && !c.Val.IsNull {
		c.Val.Ann = []model.Sym{model.S(gen.Pick(t, []string{"a", "b", "x y"}))}
	}
	if (c.T.K == "slice" || c.T.K == "bytes" || c.T.K == "array") && gen.Chance(t, 30) {
		c.Preload = gen.Range(t, 1, 4)
	}
	if c.Binary && (c.Via == 1 || c.Via == 6) {
		c.Via -= 1
	}
	if gen.IsSystemValue(c.Val) {
		c.Val.Ann = nil
		if gen.IsSystemValue(c.Val) {
			c.Val = model.Int64V(1)
		}
	}
	return c
}

func uniqueFields(v model.Value) model.Value {
	seen := map[string]bool{}
	out := v
	out.Fields = nil
	for _, f := range v.Fields {
		if !f.Name.Known || seen[strings.ToLower(f.Name.Text)] {
			continue
		}
		seen[strings.ToLower(f.Name.Text)] = true
		out.Fields = append(out.Fields, model.Field{Name: f.Name, Val: uniqueFields(f.Val)})
	}
	out.Elems = nil
	for _, e := range v.Elems {
		out.Elems = append(out.Elems, uniqueFields(e))
	}
	return out
}

// ---- Decoder over a stream

var c17Vias = []string{"Unmarshal", "UnmarshalString", "Decoder.DecodeTo", "UnmarshalFrom", "NewTextDecoder(one byte per Read).DecodeTo", "System.Unmarshal", "System.UnmarshalString"}

type C17Stream struct {
	Vals   []model.Value `json:"vals"`
	Binary bool          `json:"binary"`
	To     bool          `json:"to"` // DecodeTo(&interface{}) instead of Decode()
	// Wrapper: every value is decoded with DecodeTo into the *same* annotation
	// wrapper variable (nothing of an earlier value may linger).
	Wrapper bool `json:"wrapper,omitempty"`
	// AnnStructs: the top-level structs of the stream carry the annotations
	// meta::$ion_symbol_table:: -- user values all the same (only a first
	// annotation $ion_symbol_table makes a symbol table), decoded like the rest
	AnnStructs bool `json:"ann_structs,omitempty"`
}

type c17Wrap struct {
	V   interface{}
	Ann []ion.SymbolToken `ion:",annotations"`
}

func runC17Stream(c C17Stream) string {
	st := Stat("C17")
	st.Eval(len(c.Vals) > 1, model.Digest(c.Vals)^uint64(len(c.Vals))<<3, "decoder-stream", map[bool]string{true: "decoder-stream.annotated-structs", false: "decoder-stream.plain"}[c.AnnStructs])
	var data []byte
	render := c.Vals
	if c.AnnStructs {
		render = append([]model.Value{}, c.Vals...)
		for i := range render {
			if render[i].Kind == model.Struct && !render[i].IsNull {
				render[i].Ann = []model.Sym{model.S("meta"), model.S("$ion_symbol_table")}
			}
		}
	}
	if c.Binary {
		data = encodeDoc(render, nil).Doc
	} else {
		data = printDoc(render, nil).Doc
	}
	return drive.Guard2(func() string {
		d := ion.NewDecoder(ion.NewReaderBytes(data))
		var w c17Wrap
		for i, want := range c.Vals {
			var got interface{}
			var err error
			if c.Wrapper {
				if want.Kind == model.Struct && !want.IsNull {
					continue // an Ion struct is indistinguishable from the wrapper itself
				}
				// like encoding/json, a non-nil pointer held by an interface{} is decoded
				// *into*; only the annotations field is deliberately left as it was
				w.V = nil
				err = d.DecodeTo(&w)
				if err != nil {
					return fmt.Sprintf("DecodeTo(&wrapper) call %d fails: %v\nstream: %s", i+1, err, model.SeqString(c.Vals))
				}
				m := drive.ModelOf(reflect.ValueOf(&w).Elem(), drive.HNone)
				exp := ifaceNorm(want)
				exp.Ann = want.Ann
				if dd := looseDiff(exp, m); dd != "" {
					return fmt.Sprintf("DecodeTo into a reused wrapper, call %d: the wrapper denotes %s, the stream's value is %s: %s\nstream: %s", i+1, m.String(), want.String(), dd, model.SeqString(c.Vals))
				}
				continue
			}
			if c.To {
				err = d.DecodeTo(&got)
			} else {
				got, err = d.Decode()
			}
			if err != nil {
				return fmt.Sprintf("Decode call %d of %d fails: %v\nstream: %s", i+1, len(c.Vals), err, model.SeqString(c.Vals))
			}
			m := drive.ModelOf(reflect.ValueOf(&got).Elem(), drive.HNone)
			if dd := looseDiff(ifaceNorm(want), m); dd != "" {
				return fmt.Sprintf("Decode call %d returns %s, the stream's value %d is %s: %s", i+1, m.String(), i+1, want.String(), dd)
			}
		}
		for k := 0; k < 3; k++ {
			var err error
			if c.To || c.Wrapper {
				var x interface{}
				err = d.DecodeTo(&x)
			} else {
				_, err = d.Decode()
			}
			if err != ion.ErrNoInput {
				return fmt.Sprintf("after the %d values of the stream, Decode call %d returns %v instead of ErrNoInput\nstream: %s", len(c.Vals), len(c.Vals)+k+1, err, model.SeqString(c.Vals))
			}
		}
		return ""
	})
}

func genC17Stream(t *rapid.T) C17Stream {
	cfg := &gen.Cfg{MaxDepth: 2, AllowUnknown: false, NoAnn: true, Size: &gen.Size{}}
	c := C17Stream{Binary: gen.Chance(t, 50), To: gen.Chance(t, 50), Wrapper: gen.Chance(t, 30)}
	for _, v := range gen.Seq(t, cfg, 6) {
		v = uniqueFields(v)
		if c.Wrapper && gen.Chance(t, 50) && !(v.Kind == model.Struct) && !v.IsNull {
			v.Ann = []model.Sym{model.S(gen.Pick(t, []string{"a", "b", "x y"}))}
		}
		c.Vals = append(c.Vals, v)
	}
	c.AnnStructs = !c.Wrapper && gen.Chance(t, 30)
	if c.Wrapper {
		// wrapper streams skip Ion structs, so the ErrNoInput tail must account for them:
		// drop them from the stream altogether
		var keep []model.Value
		for _, v := range c.Vals {
			if !(v.Kind == model.Struct && !v.IsNull) {
				keep = append(keep, v)
			}
		}
		c.Vals = keep
	}
	return c
}

// ---- documents that import a shared table handed to Unmarshal / the Decoder

// C17Import: a document importing table "t" version 1 with a declared max_id
// that may exceed the table (the excess IDs are defined, text-less slots),
// followed by a list of symbols given by ID.
type C17Import struct {
	Symbols []string `json:"symbols"`
	MaxID   int      `json:"max_id"`
	IDs     []int    `json:"ids"` // offsets from the first imported ID (10)
	Binary  bool     `json:"binary,omitempty"`
	Target  int      `json:"target"` // 0 interface{}, 1 []interface{}, 2 []string, 3 []SymbolToken, 4 Decoder.Decode
}

func runC17Import(c C17Import) string {
	st := Stat("C17")
	gap := false
	for _, k := range c.IDs {
		gap = gap || (k >= len(c.Symbols) && k < c.MaxID)
	}
	st.Eval(gap, model.DigestBytes("c17import", []byte(fmt.Sprintf("%+v", c))), "imported-table", map[bool]string{true: "imported-table.id-in-padding", false: "imported-table.defined-ids"}[gap])
	st.Sample(func() string { return fmt.Sprintf("%+v", c) })
	var elems []model.Value
	for _, k := range c.IDs {
		if k < len(c.Symbols) {
			if c.Target == 2 {
				elems = append(elems, model.StrV(c.Symbols[k])) // a symbol with text into a Go string
			} else {
				elems = append(elems, model.SymV(model.S(c.Symbols[k])))
			}
		}
	}
	var data []byte
	if c.Binary {
		e := refbin.NewEnc(nil)
		data = append(data, refbin.IVM...)
		data = e.LST(data, []refbin.Import{{Name: "t", Version: 1, MaxID: c.MaxID}}, nil, false)
		var body []byte
		for _, k := range c.IDs {
			body = append(body, 0x71, byte(10+k)) // symbol, one-byte ID (at most 4 of them)
		}
		data = append(data, byte(0xB0|len(body)))
		data = append(data, body...)
	} else {
		var sb strings.Builder
		fmt.Fprintf(&sb, "$ion_symbol_table::{imports:[{name:\"t\",version:1,max_id:%d}]} [", c.MaxID)
		for i, k := range c.IDs {
			if i > 0 {
				sb.WriteString(",")
			}
			fmt.Fprintf(&sb, "$%d", 10+k)
		}
		sb.WriteString("]")
		data = []byte(sb.String())
	}
	sst := ion.NewSharedSymbolTable("t", 1, c.Symbols)
	allDefined := len(elems) == len(c.IDs)
	var err error
	var got interface{}
	perr := drive.Guard(func() error {
		switch c.Target {
		case 0:
			err = ion.Unmarshal(data, &got, sst)
		case 1:
			var x []interface{}
			err = ion.Unmarshal(data, &x, sst)
			got = x
		case 2:
			var x []string
			err = ion.Unmarshal(data, &x, sst)
			got = x
		case 3:
			var x []ion.SymbolToken
			err = ion.Unmarshal(data, &x, sst)
			got = x
		default:
			got, err = ion.NewDecoder(ion.NewReaderCat(bytes.NewReader(data), ion.NewCatalog(sst))).Decode()
		}
		return nil
	})
	if pe, ok := perr.(*drive.PanicError); ok {
		return fmt.Sprintf("decoding panics: %s\ndocument: %s", firstLine(pe.Error(), 300), showDoc(data))
	}
	if allDefined && c.Target != 3 {
		// every ID names a symbol of the table: the list of their texts
		if err != nil {
			return fmt.Sprintf("decoding fails on a valid document: %v\ndocument: %s", err, showDoc(data))
		}
		m := drive.ModelOf(reflect.ValueOf(&got).Elem(), drive.HNone)
		if dd := looseDiff(ifaceNorm(model.ListV(elems...)), m); dd != "" {
			return fmt.Sprintf("decoded %s, the document's value is %s: %s\ndocument: %s", m.String(), model.ListV(elems...).String(), dd, showDoc(data))
		}
	}
	return ""
}

func genC17Import(t *rapid.T) C17Import {
	c := C17Import{Binary: gen.Chance(t, 50), Target: gen.Intn(t, 5)}
	n := gen.Range(t, 0, 4)
	for i := 0; i < n; i++ {
		c.Symbols = append(c.Symbols, gen.Pick(t, []string{"a", "b", "c", "name", "x y"}))
	}
	c.MaxID = n + gen.Pick(t, []int{0, 0, 1, 2, 5})
	if c.MaxID > 0 && gen.Chance(t, 15) {
		c.MaxID = gen.Range(t, 0, n) // a declared max_id below the table: a prefix
		c.Symbols = c.Symbols[:c.MaxID]
	}
	if c.MaxID == 0 {
		return c
	}
	k := gen.Range(t, 1, 4)
	for i := 0; i < k; i++ {
		c.IDs = append(c.IDs, gen.Intn(t, c.MaxID))
	}
	return c
}

func TestC17(t *testing.T) {
	pi := Prop[C17Import]{ID: "C17", Sub: "imported-table", Gen: genC17Import, Run: runC17Import, Quick: 3000, Thorough: 60000}
	defer RunProp(t, pi)
	p := Prop[C17Case]{ID: "C17", Sub: "convert", Gen: genC17, Run: runC17, Quick: 10000, Thorough: 200000}
	ps := Prop[C17Stream]{ID: "C17", Sub: "decoder-stream", Gen: genC17Stream, Run: runC17Stream, Quick: 3000, Thorough: 60000}
	EnumerateSharded(t, p, "matrix", func(shard, nshards int, yield func(C17Case) bool) {
		idx := 0
		for _, tg := range c17Targets() {
			for _, v := range c17Exemplars() {
				idx++
				if idx%nshards != shard {
					continue
				}
				vals := []model.Value{v}
				if isWrapper(tg) && !v.IsNull {
					vals = append(vals, v.WithAnn(model.S("a"), model.S("b")))
				}
				for _, vv := range vals {
					cells := []C17Case{{T: tg, Val: vv, Binary: false, Via: 1}, {T: tg, Val: vv, Binary: true, Via: 0}, {T: tg, Val: vv, Binary: true, Via: 2}}
					if tg.K == "array" {
						cells = append(cells, C17Case{T: tg, Val: vv, Binary: false, Via: 1, Preload: 1}, C17Case{T: tg, Val: vv, Binary: true, Via: 2, Preload: 1})
					}
					if tg.K == "slice" || tg.K == "bytes" {
						for n := 1; n <= 3; n++ {
							cells = append(cells, C17Case{T: tg, Val: vv, Binary: n%2 == 0, Via: n % 2, Preload: n})
						}
					}
					for _, c := range cells {
						if !yield(c) {
							return
						}
					}
				}
			}
		}
	})
	// arguments that cannot be filled: an error, never a panic
	Enumerate(t, p, "bad-targets", func(yield func(C17Case) bool) {
		var kinds []string
		for k := range c17BadTargets {
			kinds = append(kinds, k)
		}
		sort.Strings(kinds)
		for _, v := range append(c17Exemplars(),
			model.StructV(model.Field{Name: model.S("c17celsius"), Val: model.FloatV(1.5)}, model.Field{Name: model.S("Station"), Val: model.StrV("x")}, model.Field{Name: model.S("N"), Val: model.Int64V(3)}),
			model.StructV(model.Field{Name: model.S("C17celsius"), Val: model.FloatV(2.5)}, model.Field{Name: model.S("c17celsius2"), Val: model.Int64V(4)}, model.Field{Name: model.S("Station"), Val: model.StrV("y")}),
			model.StructV(model.Field{Name: model.S("celsius"), Val: model.Int64V(1)}, model.Field{Name: model.S("N"), Val: model.Int64V(9)})) {
			for _, c := range []C17Case{{T: drive.TypeDesc{K: "special:embscalar"}, Val: v, Binary: false, Via: 0}, {T: drive.TypeDesc{K: "special:embscalar"}, Val: v, Binary: true, Via: 0}} {
				if !yield(c) {
					return
				}
			}
		}
		for _, v := range append(c17Exemplars(), model.Int64V(10).WithAnn(model.S("age")), model.Int64V(7).WithAnn(model.S("a"), model.S("b")), model.ListV(), model.ListV(model.ListV(), model.SexpV()),
			model.StructV(model.Field{Name: model.S("a"), Val: model.Int64V(1)}, model.Field{Name: model.S("b"), Val: model.Int64V(2)}), model.BlobV([]byte{1, 2, 3}), model.ClobV([]byte{9})) {
			for _, c := range []C17Case{{T: drive.TypeDesc{K: "special:named"}, Val: v, Binary: false, Via: 0}, {T: drive.TypeDesc{K: "special:named"}, Val: v, Binary: true, Via: 0}} {
				if !yield(c) {
					return
				}
			}
		}
		for _, k := range kinds {
			for _, v := range c17Exemplars() {
				for _, c := range []C17Case{{T: drive.TypeDesc{K: k}, Val: v, Binary: false, Via: 0}, {T: drive.TypeDesc{K: k}, Val: v, Binary: true, Via: 2}} {
					if !yield(c) {
						return
					}
				}
			}
		}
	})
	RunProp(t, p)
	RunProp(t, ps)
}

func init() {
	Describe("C17",
		"cases: (Ion value, target Go type, format, entry point): the exhaustive matrix of ~125 exemplar values (29 integer boundaries up to 2^128, every typed null, float32 / float64 boundaries incl. just above MaxFloat32, NaN, infinities, decimals, timestamps of several precisions, symbols with / without text, strings, lobs of several lengths, lists / sexps / structs of scalars incl. mixed, nested and out-of-range elements) x 75 target types (bool, every integer width, uintptr, float32/64, string, []byte, [4]byte, Timestamp, time.Time, Decimal, big.Int, SymbolToken, interface{}, a non-empty interface, and pointer / pointer-to-pointer / slice / array / map / struct / annotation-wrapper shapes over 7 element types) x {text via UnmarshalString, binary via Unmarshal, binary via Decoder.DecodeTo}; plus random values (entry points also UnmarshalFrom, NewTextDecoder over a one-byte-per-Read source, System.Unmarshal / UnmarshalString) and random integers against the same targets; plus 12 arguments that cannot be filled (nil, non-pointer, nil pointer, pointers to chan / func / complex / map with int keys / struct with unexported fields) x every exemplar: an error or at least no panic; plus Decoder streams of 0-6 values (30% with their top-level structs annotated meta::$ion_symbol_table::, which stay user values); plus documents importing a shared table with max_id below / at / above its size followed by a list of 1-4 symbol IDs inside the import, decoded with the table handed to Unmarshal or through a Decoder over NewReaderCat into interface{}, []interface{}, []string, []SymbolToken. Non-trivial: off-diagonal cell, boundary number or typed null. Distinct by digest(value, target, format, entry).",
		"oracle: reference conversion table with three verdicts per cell: must-store (the stored Go value, described by the harness's own reflection walk, equals the expected value), must-error (integer outside the target's width or sign, finite float beyond float32, symbol without text into string, any type mismatch: an error and never a stored result), either (a typed null leaving the zero value, surplus list elements or lob bytes dropped for a fixed-size array, float into Decimal, case-insensitive field-name fallback, an annotated struct into a wrapper); never a panic. Decoder: n successful Decode / DecodeTo calls in order, then ErrNoInput on each further call; imported-table documents: never a panic, and the list of texts when every ID is defined",
		"stored values are compared under C16's semantic equality (nil vs empty collections, time.Time by instant); struct values for map / interface{} targets have unique field names with known text",
	)
}
