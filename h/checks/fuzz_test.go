package checks

import (
	"testing"

	"pgregory.net/rapid"

	"verif/h/refbin"
)

// Native coverage-guided fuzz targets (thorough tier only; the quick tier never
// runs them). Two kinds: (a) a property's own generator driven by the fuzzer's
// bytes through rapid.MakeFuzz, so coverage guidance steers the structured
// generator; (b) byte-level targets whose input *is* the document. A failure
// is reported exactly like a rapid failure: a replay file holding the case and
// a VIOLATION line, then the fuzz run stops.

func fuzzProp[C any](f *testing.F, p Prop[C]) {
	register(p)
	// rapid.MakeFuzz reads its draws from the fuzz input and gives up when the
	// bytes run out, so the seed corpus must be long enough to drive a whole
	// generator run: fixed pseudo-random byte strings of several lengths.
	x := uint64(0x9E3779B97F4A7C15)
	for _, n := range []int{512, 2048, 2048, 8192, 8192, 32768} {
		b := make([]byte, n)
		for i := range b {
			x ^= x << 13
			x ^= x >> 7
			x ^= x << 17
			b[i] = byte(x >> 32)
		}
		f.Add(b)
	}
	f.Fuzz(rapid.MakeFuzz(func(t *rapid.T) {
		c := p.Gen(t)
		if msg := safeRun(p.Run, c); msg != "" {
			reportViolation(p.ID, p.Sub, c, msg)
			t.Fatalf("%s", msg)
		}
	}))
}

func FuzzC01(f *testing.F) {
	fuzzProp(f, Prop[C01Case]{ID: "C01", Sub: "roundtrip", Gen: genC01, Run: runC01})
}
func FuzzC02(f *testing.F) {
	fuzzProp(f, Prop[DocCase]{ID: "C02", Sub: "spelling", Gen: genC02, Run: runC02})
}
func FuzzC03(f *testing.F) {
	fuzzProp(f, Prop[DocCase]{ID: "C03", Sub: "decode", Gen: genC03, Run: runC03})
}
func FuzzC08(f *testing.F) {
	fuzzProp(f, Prop[C08Case]{ID: "C08", Sub: "navigation", Gen: genC08, Run: runC08})
}
func FuzzC10(f *testing.F) {
	fuzzProp(f, Prop[C10Case]{ID: "C10", Sub: "context", Gen: genC10, Run: runC10})
}
func FuzzC12(f *testing.F) {
	fuzzProp(f, Prop[C12Case]{ID: "C12", Sub: "sequences", Gen: genC12, Run: runC12})
}
func FuzzC16(f *testing.F) {
	fuzzProp(f, Prop[C16Case]{ID: "C16", Sub: "roundtrip", Gen: genC16, Run: runC16})
}

func seedDocs(f *testing.F, prefix []byte) {
	for _, d := range c19FixedDocs(0) {
		if len(d) <= 200 {
			f.Add(append(append([]byte{}, prefix...), d...))
		}
	}
	for _, tok := range c06ExtremeTokens()[:40] {
		f.Add(append(append(append([]byte{}, prefix...), refbin.IVM...), tok...))
	}
	for _, s := range c06ExtremeTexts[:30] {
		if len(s) < 300 {
			f.Add(append(append([]byte{}, prefix...), s...))
		}
	}
}

// FuzzC06Bytes: data[0] program kind, data[1] argument, data[2:] the input;
// judged by the isolated worker exactly like the rapid cases.
func FuzzC06Bytes(f *testing.F) {
	p := Prop[C06Case]{ID: "C06", Sub: "robust", Run: runC06}
	register(p)
	for k := 0; k < 6; k++ {
		seedDocs(f, []byte{byte(k), 17})
	}
	f.Fuzz(func(t *testing.T, data []byte) {
		if len(data) < 2 || len(data) > 1<<16 {
			return
		}
		c := C06Case{Kind: int(data[0]) % 6, Arg: []byte{data[1], data[1] >> 1, data[1] >> 2, 0, 21, 7, 0, 21}, Input: data[2:], Src: "native-fuzz"}
		if msg := safeRun(runC06, c); msg != "" {
			reportViolation("C06", "robust", c, msg)
			t.Fatalf("%s", msg)
		}
	})
}

// FuzzC07Bytes: the input is the document; the reference decoder decides
// whether it is a witness (malformed for a listed reason).
func FuzzC07Bytes(f *testing.F) {
	p := Prop[C07Case]{ID: "C07", Sub: "malformed", Run: runC07}
	register(p)
	seedDocs(f, nil)
	f.Fuzz(func(t *testing.T, data []byte) {
		if len(data) > 1<<14 {
			return
		}
		c := C07Case{Doc: data, Op: "native-fuzz"}
		if msg := safeRun(runC07, c); msg != "" {
			reportViolation("C07", "malformed", c, msg)
			t.Fatalf("%s", msg)
		}
	})
}

// FuzzC19Bytes: data[0..2] choose the delivery plan, the rest is the document.
func FuzzC19Bytes(f *testing.F) {
	p := Prop[C19Read]{ID: "C19", Sub: "chunking", Run: runC19Chunk}
	register(p)
	seedDocs(f, []byte{1, 0, 0})
	seedDocs(f, []byte{3, 7, 1})
	f.Fuzz(func(t *testing.T, data []byte) {
		if len(data) < 3 || len(data) > 1<<14 {
			return
		}
		doc := data[3:]
		c := C19Read{Doc: doc, FailAt: -1, EOFWithData: data[2]&1 == 1, Shallow: data[2]&2 == 2}
		switch data[0] % 4 {
		case 0:
			c.Chunks = []int{1}
		case 1:
			c.Chunks = []int{int(data[1]) % (len(doc) + 1), 1 << 20}
		case 2:
			c.Chunks = []int{1 + int(data[1])%7, 1 + int(data[1]>>3)%5}
		default:
			c.Chunks = []int{1 + int(data[1])%3}
			c.ZeroEvery = 2 + int(data[1])%3
		}
		if msg := safeRun(runC19Chunk, c); msg != "" {
			reportViolation("C19", "chunking", c, msg)
			t.Fatalf("%s", msg)
		}
	})
}
