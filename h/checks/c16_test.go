package checks

import (
	"bytes"
	"fmt"
	"math"
	"math/big"
	"reflect"
	"sort"
	"strings"
	"testing"
	"time"

	"github.com/amzn/ion-go/ion"
	"pgregory.net/rapid"

	"verif/h/drive"
	"verif/h/gen"
	"verif/h/model"
	"verif/h/refbin"
	"verif/h/reftext"
)

// C16 — Marshal then Unmarshal returns an equal Go value, in text and in binary.

type C16Case struct {
	T     drive.TypeDesc `json:"t"`
	V     drive.GoVal    `json:"v"`
	ByPtr bool           `json:"by_ptr"` // Marshal(&v) instead of Marshal(v)
}

// ---- semantic comparison of Ion denotations

// looseDiff is model.Diff with the tolerances the property allows: the untyped
// null and an empty list / sexp / struct / lob are interchangeable (nil versus
// empty collections), a struct field holding such a value and an absent field
// are interchangeable (omitempty), struct fields are compared as multisets.
func looseDiff(a, b model.Value) string {
	x, y := normLoose(a), normLoose(b)
	if emptyish(x) && emptyish(y) && len(x.Ann) == len(y.Ann) {
		return model.Diff(model.Value{Kind: model.Null, IsNull: true, Ann: x.Ann}, model.Value{Kind: model.Null, IsNull: true, Ann: y.Ann})
	}
	return model.Diff(x, y)
}

func emptyish(v model.Value) bool {
	if v.IsNull {
		return v.Kind == model.Null
	}
	switch v.Kind {
	case model.List, model.Sexp:
		return len(v.Elems) == 0
	case model.Struct:
		return len(v.Fields) == 0
	case model.Blob, model.Clob:
		return len(v.Bytes) == 0
	}
	return false
}

// normLoose rewrites a value into a normal form under the tolerances above:
// every empty-ish value becomes the untyped null, struct fields holding one are
// dropped, fields are sorted.
func normLoose(v model.Value) model.Value {
	out := v
	if !v.IsNull {
		switch v.Kind {
		case model.List, model.Sexp:
			out.Elems = nil
			for _, e := range v.Elems {
				out.Elems = append(out.Elems, normLoose(e))
			}
		case model.Struct:
			out.Fields = nil
			for _, f := range v.Fields {
				n := normLoose(f.Val)
				if emptyish(n) && len(n.Ann) == 0 {
					continue
				}
				out.Fields = append(out.Fields, model.Field{Name: f.Name, Val: n})
			}
			out = model.SortedFieldsCopy(out)
		}
	}
	if emptyish(out) {
		return model.Value{Kind: model.Null, IsNull: true, Ann: out.Ann}
	}
	return out
}

// nilShape records, for every slice and map reachable from v without passing
// through an interface or an omitempty / annotations field, whether it is nil or
// empty. Marshal writes nil as null and an empty collection as an empty
// container, Unmarshal turns null into nil and an empty container into an empty
// collection, so the round trip keeps the difference (only omitempty cannot).
func nilShape(v reflect.Value, path string, out map[string]string) {
	switch v.Kind() {
	case reflect.Ptr:
		if !v.IsNil() {
			nilShape(v.Elem(), path+"*", out)
		}
	case reflect.Slice:
		if v.IsNil() {
			out[path] = "nil"
			return
		}
		if v.Len() == 0 {
			out[path] = "empty"
		}
		if v.Type().Elem().Kind() == reflect.Uint8 {
			return
		}
		for i := 0; i < v.Len(); i++ {
			nilShape(v.Index(i), fmt.Sprintf("%s[%d]", path, i), out)
		}
	case reflect.Array:
		for i := 0; i < v.Len(); i++ {
			nilShape(v.Index(i), fmt.Sprintf("%s[%d]", path, i), out)
		}
	case reflect.Map:
		if v.IsNil() {
			out[path] = "nil"
			return
		}
		if v.Len() == 0 {
			out[path] = "empty"
		}
		for _, k := range v.MapKeys() {
			nilShape(v.MapIndex(k), fmt.Sprintf("%s[%q]", path, k.String()), out)
		}
	case reflect.Struct:
		switch v.Type() {
		case reflect.TypeOf(ion.Timestamp{}), reflect.TypeOf(time.Time{}), reflect.TypeOf(ion.Decimal{}), reflect.TypeOf(big.Int{}), reflect.TypeOf(ion.SymbolToken{}):
			return
		}
		for i := 0; i < v.NumField(); i++ {
			f := v.Type().Field(i)
			tag := f.Tag.Get("ion")
			if f.PkgPath != "" && !f.Anonymous || tag == "-" || strings.Contains(tag, ",omitempty") || strings.Contains(tag, ",annotations") {
				continue
			}
			nilShape(v.Field(i), path+"."+f.Name, out)
		}
	}
}

func runC16(c C16Case) string {
	st := Stat("C16")
	typ := drive.GoType(c.T)
	holder := reflect.New(typ)
	drive.Build(c.T, c.V, holder.Elem())
	want := drive.ModelOf(holder.Elem(), drive.HNone)
	arg := holder.Elem().Interface()
	if c.ByPtr {
		arg = holder.Interface()
	}
	tstr := typ.String()
	if len(tstr) > 300 {
		tstr = tstr[:300] + "…"
	}
	nt, classes := c16Traits(c.T, c.V)
	st.Eval(nt, model.DigestBytes("c16 "+typ.String()+fmt.Sprint(c.ByPtr), []byte(want.String())), classes...)
	st.Sample(func() string { return fmt.Sprintf("type %s  value denotes %s", tstr, want.String()) })
	desc := func() string {
		return fmt.Sprintf("\ntype: %s\nbyPointer: %v\nvalue denotes: %s", tstr, c.ByPtr, want.String())
	}
	return drive.Guard2(func() string {
		if len(tstr)%4 == 0 {
			// a Marshal call that fails half way (a channel behind other fields) must
			// not leave anything behind for the calls that follow
			bad := struct {
				A int
				S string
				C chan int
			}{7, "left-over", make(chan int)}
			if out, err := ion.MarshalText(bad); err == nil {
				return fmt.Sprintf("MarshalText of a struct holding a channel succeeded: %q", out)
			}
			if out, err := ion.MarshalBinary(&bad); err == nil {
				return fmt.Sprintf("MarshalBinary of a struct holding a channel succeeded: % x", out)
			}
		}
		text1, err := ion.MarshalText(arg)
		if err != nil {
			return fmt.Sprintf("MarshalText fails: %v", err) + desc()
		}
		for rep := 0; rep < 4; rep++ {
			text2, err := ion.MarshalText(arg)
			if err != nil || !bytes.Equal(text1, text2) {
				return fmt.Sprintf("MarshalText is not deterministic: %q vs %q (%v)", text1, text2, err) + desc()
			}
		}
		bin, err := ion.MarshalBinary(arg)
		if err != nil {
			return fmt.Sprintf("MarshalBinary fails: %v", err) + desc()
		}
		// (2) both outputs denote the documented mapping of the value
		tres, err := reftext.Parse(text1, reftext.Options{})
		if err != nil || len(tres.Values) != 1 {
			return fmt.Sprintf("MarshalText output is not one valid Ion value: %v\ntext: %q", err, text1) + desc()
		}
		if d := model.Diff(want, tres.Values[0]); d != "" {
			return fmt.Sprintf("MarshalText output denotes a different value: %s\ntext: %q", d, text1) + desc()
		}
		bres, err := refbin.Decode(bin, refbin.Options{RequireIVM: true})
		if err != nil || len(bres.Values) != 1 {
			return fmt.Sprintf("MarshalBinary output is not one valid Ion value: %v\nbytes: % x", err, clip(bin, 300)) + desc()
		}
		if d := model.Diff(sortedDeep(want), sortedDeep(bres.Values[0])); d != "" {
			return fmt.Sprintf("MarshalBinary output denotes a different value: %s\nbytes: % x", d, clip(bin, 300)) + desc()
		}
		// (2b) MarshalBinaryLST with a fixed table holding every text the value needs
		needed := refbin.CollectSymbols([]model.Value{want})
		for _, s := range needed {
			if s == "" {
				// a fixed table cannot hold the empty text (never indexed by name,
				// by design): use a text that is there instead of skipping the path
				needed = nil
				break
			}
		}
		lst := ion.NewLocalSymbolTable(nil, needed)
		binLST, err := ion.MarshalBinaryLST(arg, lst)
		if needed == nil && len(refbin.CollectSymbols([]model.Value{want})) > 0 {
			// not judged: fall back to the growing-table output for the round trip
			binLST, err = bin, nil
		}
		if err != nil {
			return fmt.Sprintf("MarshalBinaryLST (fixed table with every needed text) fails: %v", err) + desc()
		}
		lres, err := refbin.Decode(binLST, refbin.Options{RequireIVM: true})
		if err != nil || len(lres.Values) != 1 {
			return fmt.Sprintf("MarshalBinaryLST output is not one valid Ion value: %v\nbytes: % x", err, clip(binLST, 300)) + desc()
		}
		if d := model.Diff(sortedDeep(want), sortedDeep(lres.Values[0])); d != "" {
			return fmt.Sprintf("MarshalBinaryLST output denotes a different value: %s\nbytes: % x", d, clip(binLST, 300)) + desc()
		}
		// (2c) an Encoder writing the value twice produces a stream of two such values
		var ebuf bytes.Buffer
		enc := ion.NewTextEncoder(&ebuf)
		if c.ByPtr {
			enc = ion.NewBinaryEncoder(&ebuf)
		}
		if err := enc.Encode(arg); err != nil {
			return fmt.Sprintf("Encoder.Encode fails: %v", err) + desc()
		}
		if err := enc.Encode(arg); err != nil {
			return fmt.Sprintf("second Encoder.Encode fails: %v", err) + desc()
		}
		if err := enc.Finish(); err != nil {
			return fmt.Sprintf("Encoder.Finish fails: %v", err) + desc()
		}
		var evals []model.Value
		if c.ByPtr {
			r, err := refbin.Decode(ebuf.Bytes(), refbin.Options{RequireIVM: true})
			if err != nil {
				return fmt.Sprintf("binary Encoder stream is not valid Ion: %v", err) + desc()
			}
			evals = r.Values
		} else {
			r, err := reftext.Parse(ebuf.Bytes(), reftext.Options{})
			if err != nil {
				return fmt.Sprintf("text Encoder stream is not valid Ion: %v\ntext: %q", err, ebuf.Bytes()) + desc()
			}
			evals = r.Values
		}
		if len(evals) != 2 || model.Diff(sortedDeep(want), sortedDeep(evals[0])) != "" || model.Diff(sortedDeep(want), sortedDeep(evals[1])) != "" {
			return fmt.Sprintf("an Encoder given the value twice wrote %d values: %s", len(evals), model.SeqString(evals)) + desc()
		}
		// (2d) MarshalTo places the value inside a partially written container;
		// EncodeAs without a hint and NewBinaryEncoderLST are the same mapping
		{
			var mbuf bytes.Buffer
			var w ion.Writer
			if c.ByPtr {
				w = ion.NewTextWriter(&mbuf)
			} else {
				w = ion.NewBinaryWriter(&mbuf)
			}
			err := w.BeginStruct()
			if err == nil {
				err = w.FieldName(ion.NewSymbolTokenFromString("k"))
			}
			if err == nil {
				err = ion.MarshalTo(w, arg)
			}
			if err == nil {
				err = w.FieldName(ion.NewSymbolTokenFromString("after"))
			}
			if err == nil {
				err = w.WriteInt(1)
			}
			if err == nil {
				err = w.EndStruct()
			}
			if err == nil {
				err = w.Finish()
			}
			if err != nil {
				return fmt.Sprintf("MarshalTo inside an open struct fails: %v", err) + desc()
			}
			var mvals []model.Value
			var perr error
			if c.ByPtr {
				var r *reftext.Result
				r, perr = reftext.Parse(mbuf.Bytes(), reftext.Options{})
				if perr == nil {
					mvals = r.Values
				}
			} else {
				var r *refbin.Result
				r, perr = refbin.Decode(mbuf.Bytes(), refbin.Options{RequireIVM: true})
				if perr == nil {
					mvals = r.Values
				}
			}
			exp := model.StructV(model.Field{Name: model.S("k"), Val: want}, model.Field{Name: model.S("after"), Val: model.Int64V(1)})
			if perr != nil || len(mvals) != 1 || model.Diff(sortedDeep(exp), sortedDeep(mvals[0])) != "" {
				return fmt.Sprintf("MarshalTo inside an open struct: the stream is %s (%v), expected {k:<value>,after:1}", model.SeqString(mvals), perr) + desc()
			}
			if needed != nil {
				var lbuf bytes.Buffer
				le := ion.NewBinaryEncoderLST(&lbuf, ion.NewLocalSymbolTable(nil, needed))
				err := le.EncodeAs(arg, ion.NoType)
				if err == nil {
					err = le.Finish()
				}
				if err != nil {
					return fmt.Sprintf("NewBinaryEncoderLST(...).EncodeAs(v, NoType) fails: %v", err) + desc()
				}
				r, perr := refbin.Decode(lbuf.Bytes(), refbin.Options{RequireIVM: true})
				if perr != nil || len(r.Values) != 1 || model.Diff(sortedDeep(want), sortedDeep(r.Values[0])) != "" {
					return fmt.Sprintf("NewBinaryEncoderLST(...).EncodeAs(v, NoType) wrote something else (%v)\nbytes: % x", perr, clip(lbuf.Bytes(), 300)) + desc()
				}
			}
		}
		// (2e) an Encoder with EncodeSortMaps writes binary deterministically too
		{
			var outs [2][]byte
			for k := range outs {
				var sb bytes.Buffer
				se := ion.NewEncoderOpts(ion.NewBinaryWriter(&sb), ion.EncodeSortMaps)
				err := se.Encode(arg)
				if err == nil {
					err = se.Finish()
				}
				if err != nil {
					return fmt.Sprintf("NewEncoderOpts(binary writer, EncodeSortMaps).Encode fails: %v", err) + desc()
				}
				outs[k] = sb.Bytes()
			}
			if !bytes.Equal(outs[0], outs[1]) {
				return fmt.Sprintf("an Encoder with EncodeSortMaps is not deterministic in binary:\n% x\n% x", clip(outs[0], 200), clip(outs[1], 200)) + desc()
			}
			r, perr := refbin.Decode(outs[0], refbin.Options{RequireIVM: true})
			if perr != nil || len(r.Values) != 1 || model.Diff(sortedDeep(want), sortedDeep(r.Values[0])) != "" {
				return fmt.Sprintf("an Encoder with EncodeSortMaps wrote something else (%v)\nbytes: % x", perr, clip(outs[0], 300)) + desc()
			}
		}
		// (3) Unmarshal of each output into the same type gives an equal value
		for i, data := range [][]byte{text1, bin, binLST} {
			format := []string{"text", "binary", "binaryLST"}[i]
			back := reflect.New(typ)
			if err := ion.Unmarshal(data, back.Interface()); err != nil {
				return fmt.Sprintf("Unmarshal of the %s output into the same type fails: %v\ntext: %q", format, err, text1) + desc()
			}
			drive.TimeAsInstant = true
			got := drive.ModelOf(back.Elem(), drive.HNone)
			wantLoose := drive.ModelOf(holder.Elem(), drive.HNone)
			drive.TimeAsInstant = false
			if d := looseDiff(wantLoose, got); d != "" {
				return fmt.Sprintf("Unmarshal(Marshal%s(v)) differs from v: %s\nround-tripped value denotes: %s\ntext: %q", strings.Title(format), d, got.String(), text1) + desc()
			}
			s1, s2 := map[string]string{}, map[string]string{}
			nilShape(holder.Elem(), "v", s1)
			nilShape(back.Elem(), "v", s2)
			var paths []string
			for p := range s1 {
				paths = append(paths, p)
			}
			sort.Strings(paths)
			for _, p := range paths {
				if b, ok := s2[p]; ok && b != s1[p] {
					return fmt.Sprintf("Unmarshal(Marshal%s(v)) differs from v: the collection at %s was %s and comes back %s\ntext: %q", strings.Title(format), p, s1[p], b, text1) + desc()
				}
			}
		}
		return ""
	})
}

func c16Traits(t drive.TypeDesc, v drive.GoVal) (bool, []string) {
	depth, tags, indirect := 0, false, false
	kinds := map[string]bool{}
	var walk func(d drive.TypeDesc, n int)
	walk = func(d drive.TypeDesc, n int) {
		if n > depth {
			depth = n
		}
		kinds[strings.SplitN(d.K, ":", 2)[0]] = true
		if d.K == "ptr" || d.K == "iface" {
			indirect = true
		}
		if d.Elem != nil {
			walk(*d.Elem, n+1)
		}
		for _, f := range d.Fields {
			if f.Tag != "" {
				tags = true
			}
			if f.Embedded {
				kinds["embedded"] = true
			}
			walk(f.T, n+1)
		}
	}
	walk(t, 0)
	var classes []string
	for k := range kinds {
		classes = append(classes, "kind."+k)
	}
	if tags {
		classes = append(classes, "has-tag-option")
	}
	zero := reflect.DeepEqual(v, drive.GoVal{})
	return (depth >= 2 || tags || indirect) && !zero, classes
}

// ---- type and value generation

var c16Scalars = []string{"bool", "int", "int8", "int16", "int32", "int64", "uint", "uint8", "uint16", "uint32", "uint64", "uintptr", "float32", "float64", "string", "bytes", "timestamp", "time", "decimal", "bigint"}

var c16FieldNames = []string{"A", "B", "C", "D", "E", "F", "Name", "Value", "Xy"}

func genType(t *rapid.T, depth int) drive.TypeDesc {
	k := gen.Intn(t, 20)
	if depth >= 4 && k >= 10 {
		k = gen.Intn(t, 10)
	}
	switch {
	case k < 10:
		return drive.TypeDesc{K: gen.Pick(t, c16Scalars)}
	case k == 10 || k == 11:
		e := genType(t, depth+1)
		return drive.TypeDesc{K: "slice", Elem: &e}
	case k == 12:
		e := genType(t, depth+1)
		return drive.TypeDesc{K: "array", Elem: &e, N: gen.Range(t, 0, 3)}
	case k == 13:
		e := genType(t, depth+1)
		return drive.TypeDesc{K: "map", Elem: &e}
	case k == 14 || k == 15:
		e := genType(t, depth+1)
		return drive.TypeDesc{K: "ptr", Elem: &e}
	case k == 16:
		return drive.TypeDesc{K: "iface"}
	case k == 17 && depth <= 2:
		name := gen.Pick(t, []string{"ptrembed", "unexportedembed", "named"})
		return drive.StaticDescs[name]
	default:
		return genStruct(t, depth)
	}
}

func genStruct(t *rapid.T, depth int) drive.TypeDesc {
	d := drive.TypeDesc{K: "struct"}
	if depth <= 3 && gen.Chance(t, 12) {
		// annotation wrapper: one value field + annotations
		vt := genType(t, depth+1)
		// the documentation lists scalars, big.Int / Decimal / Timestamp, slices and
		// interface{} as value types of a wrapper; pointers, maps and structs are not
		for !wrapperValueOK(vt) {
			vt = drive.TypeDesc{K: gen.Pick(t, c16Scalars)}
		}
		d.Fields = []drive.FieldDesc{{Name: "V", T: vt}, {Name: "Ann", Tag: ",annotations", T: drive.TypeDesc{K: "anntokens"}}}
		return d
	}
	n := gen.Range(t, 0, 5)
	used := map[string]bool{}
	if depth == 0 && gen.Chance(t, 8) {
		// a chain of embedded structs 2-4 levels deep whose innermost level has
		// several fields (promoted through every level)
		levels := gen.Range(t, 2, 4)
		inner := drive.TypeDesc{K: "struct"}
		k := gen.Range(t, 2, 4)
		for i := 0; i < k; i++ {
			inner.Fields = append(inner.Fields, drive.FieldDesc{Name: "P" + fmt.Sprint(i), T: drive.TypeDesc{K: gen.Pick(t, []string{"int", "string", "bool", "float64", "int8"})}})
			used["P"+fmt.Sprint(i)] = true
		}
		for l := 0; l < levels; l++ {
			outer := drive.TypeDesc{K: "struct", Fields: []drive.FieldDesc{{Name: "Emb" + fmt.Sprint(l), T: inner, Embedded: true}}}
			if gen.Chance(t, 50) {
				nm := "Q" + fmt.Sprint(l)
				outer.Fields = append(outer.Fields, drive.FieldDesc{Name: nm, T: drive.TypeDesc{K: "int"}})
				used[nm] = true
			}
			inner = outer
		}
		d.Fields = append(d.Fields, inner.Fields...)
	}
	for i := 0; i < n; i++ {
		f := drive.FieldDesc{Name: c16FieldNames[i], T: genType(t, depth+1)}
		ionName := f.Name
		switch gen.Intn(t, 9) {
		case 8:
			// differs from another field's name only by case
			ionName = strings.ToLower(c16FieldNames[gen.Intn(t, n)])
			f.Tag = ionName
		case 0:
			ionName = gen.Pick(t, []string{"renamed", "x y", "a", "é", "name", "$ion"}) + fmt.Sprint(i)
			f.Tag = ionName
		case 1:
			f.Tag = ",omitempty"
		case 2:
			f.Tag = "-"
		}
		// type-directed options
		switch base := f.T; {
		case base.K == "string" && gen.Chance(t, 30):
			f.Tag = tagWith(f.Tag, "symbol")
		case base.K == "bytes" && gen.Chance(t, 40):
			f.Tag = tagWith(f.Tag, "clob")
		case (base.K == "slice" || base.K == "array") && gen.Chance(t, 30) && sexpSafe(*base.Elem):
			f.Tag = tagWith(f.Tag, "sexp")
		case base.K == "slice" && base.Elem.K == "string" && gen.Chance(t, 30):
			f.Tag = tagWith(f.Tag, "symbol")
		}
		// embedded struct (flattened): only struct types, unique promoted names
		if f.T.K == "struct" && f.Tag == "" && gen.Chance(t, 35) && !isWrapper(f.T) {
			ok := true
			names := promotedNames(f.T)
			seenHere := map[string]bool{}
			for _, n := range names {
				if used[n] || seenHere[n] {
					ok = false
				}
				seenHere[n] = true
			}
			for _, ff := range f.T.Fields {
				if ff.Tag == "-" {
					ok = false
				}
			}
			if ok {
				f.Embedded = true
				for _, n := range names {
					used[n] = true
				}
			}
		}
		if !f.Embedded {
			if used[ionName] && f.Tag != "-" {
				continue
			}
			if f.Tag != "-" {
				used[ionName] = true
			}
		}
		d.Fields = append(d.Fields, f)
	}
	return d
}

func wrapperValueOK(d drive.TypeDesc) bool {
	switch d.K {
	case "struct", "ptr", "map":
		return false
	case "slice", "array":
		return d.Elem.K != "struct" && !strings.HasPrefix(d.Elem.K, "static:") && wrapperValueOK(*d.Elem)
	}
	return !strings.HasPrefix(d.K, "static:")
}

// promotedNames lists the Ion field names a struct contributes when embedded
// (recursively through its own embedded structs).
func promotedNames(d drive.TypeDesc) []string {
	var out []string
	for _, f := range d.Fields {
		if f.Tag == "-" {
			continue
		}
		if f.Embedded {
			out = append(out, promotedNames(f.T)...)
			continue
		}
		out = append(out, ionFieldName(f))
	}
	return out
}

func isWrapper(d drive.TypeDesc) bool {
	for _, f := range d.Fields {
		if strings.Contains(f.Tag, "annotations") {
			return true
		}
	}
	return false
}

// sexpSafe: the sexp hint is inherited by every nested value, so restrict it to
// element types for which that inheritance is harmless and unambiguous.
func sexpSafe(e drive.TypeDesc) bool {
	switch e.K {
	case "int", "int64", "string", "bool", "float64":
		return true
	case "slice", "array":
		return sexpSafe(*e.Elem)
	}
	return false
}

func ionFieldName(f drive.FieldDesc) string {
	if i := strings.Index(f.Tag, ","); i >= 0 {
		if f.Tag[:i] != "" {
			return f.Tag[:i]
		}
		return f.Name
	}
	if f.Tag != "" {
		return f.Tag
	}
	return f.Name
}

func tagWith(tag, opt string) string {
	if tag == "-" {
		return tag
	}
	if strings.Contains(tag, ",") {
		return tag + "," + opt
	}
	return tag + "," + opt
}

func intRange(k string) (lo, hi *big.Int) {
	bits := map[string]int{"int": 64, "int8": 8, "int16": 16, "int32": 32, "int64": 64, "uint": 64, "uint8": 8, "uint16": 16, "uint32": 32, "uint64": 64, "uintptr": 64}[k]
	one := big.NewInt(1)
	if strings.HasPrefix(k, "u") {
		return new(big.Int), new(big.Int).Sub(new(big.Int).Lsh(one, uint(bits)), one)
	}
	h := new(big.Int).Lsh(one, uint(bits-1))
	return new(big.Int).Neg(h), new(big.Int).Sub(h, one)
}

// annNullOK: an annotated null in a wrapper survives a round trip only when the
// wrapper is not reached through a pointer or an interface (Unmarshal resets
// those to nil and the annotations have nowhere to go).
var annNullOK = true

func genGoVal(t *rapid.T, d drive.TypeDesc, depth int) drive.GoVal {
	if d.K == "ptr" || d.K == "iface" {
		saved := annNullOK
		annNullOK = false
		defer func() { annNullOK = saved }()
	}
	var g drive.GoVal
	switch d.K {
	case "bool":
		g.Bool = gen.Chance(t, 50)
	case "int", "int8", "int16", "int32", "int64", "uint", "uint8", "uint16", "uint32", "uint64", "uintptr":
		lo, hi := intRange(d.K)
		var v *big.Int
		switch gen.Intn(t, 8) {
		case 0:
			v = lo
		case 1:
			v = hi
		case 2:
			v = new(big.Int)
		case 3:
			v = new(big.Int).Rsh(hi, 1)
		case 4:
			// around the next-narrower signed / unsigned limits (2^7, 2^8, ... 2^63, 2^64)
			k := gen.Pick(t, []uint{7, 8, 15, 16, 31, 32, 63, 64})
			v = new(big.Int).Lsh(big.NewInt(1), k)
			v.Add(v, big.NewInt(int64(gen.Pick(t, []int{-1, 0, 0, 1}))))
			if lo.Sign() < 0 && gen.Chance(t, 50) {
				v.Neg(v)
			}
		default:
			v = big.NewInt(int64(gen.Range(t, -200, 200)))
		}
		if v.Cmp(lo) < 0 {
			v = lo
		}
		if v.Cmp(hi) > 0 {
			v = hi
		}
		g.Int = v.String()
	case "float32":
		f := gen.Float(t)
		g.F = math.Float64bits(float64(float32(f)))
	case "float64":
		g.F = math.Float64bits(gen.Float(t))
	case "string":
		g.S = gen.Text(t, &gen.Size{})
		if gen.Chance(t, 30) {
			g.S = gen.Pick(t, []string{"", "a", "null", "true", "+", "$ion", "a b", "é", "nan"})
		}
	case "bytes":
		if gen.Chance(t, 20) {
			g.Nil = true
		} else {
			g.B = gen.Bytes(t, &gen.Size{})
			if g.B == nil {
				g.B = []byte{}
			}
		}
	case "timestamp":
		ts := gen.TS(t)
		g.TS = &ts
	case "time":
		ts := gen.TS(t)
		ts.Prec, ts.FracDigits = model.PSecond, 9
		g.Zone = gen.Pick(t, []string{"UTC", "UTC", "", "EST5", "X"})
		switch g.Zone {
		case "UTC":
			ts.Offset = 0
		default:
			if ts.Offset == 0 && g.Zone != "" {
				ts.Offset = 60
			}
		}
		ts.OffsetKnown = true
		g.TS = &ts
	case "decimal":
		dd := gen.Dec(t)
		g.Dec = &dd
	case "bigint":
		g.Int = gen.BigInt(t).String()
	case "iface":
		if gen.Chance(t, 25) || depth >= 4 {
			g.Nil = true
			return g
		}
		dyn := drive.TypeDesc{K: gen.Pick(t, []string{"bool", "int", "int64", "float64", "string", "bytes", "timestamp", "decimal"})}
		if gen.Chance(t, 30) {
			e := drive.TypeDesc{K: gen.Pick(t, []string{"int", "string", "iface"})}
			dyn = drive.TypeDesc{K: gen.Pick(t, []string{"slice", "map"}), Elem: &e}
		}
		g = genGoVal(t, dyn, depth+1)
		if g.Nil {
			return drive.GoVal{Nil: true}
		}
		g.Dyn = &dyn
	case "ptr":
		if gen.Chance(t, 30) {
			g.Nil = true
		} else {
			g.Elems = []drive.GoVal{genGoVal(t, *d.Elem, depth+1)}
		}
	case "slice":
		if gen.Chance(t, 20) {
			g.Nil = true
		} else {
			n := gen.Pick(t, []int{0, 1, 2, 3})
			g.Elems = []drive.GoVal{}
			for i := 0; i < n; i++ {
				g.Elems = append(g.Elems, genGoVal(t, *d.Elem, depth+1))
			}
		}
	case "array":
		for i := 0; i < d.N; i++ {
			g.Elems = append(g.Elems, genGoVal(t, *d.Elem, depth+1))
		}
	case "map":
		if gen.Chance(t, 20) {
			g.Nil = true
		} else {
			n := gen.Pick(t, []int{0, 1, 2, 3, 5, 8})
			seen := map[string]bool{}
			g.Elems = []drive.GoVal{}
			for i := 0; i < n; i++ {
				k := gen.Pick(t, []string{"k1", "k2", "a", "", "x y", "é", "name", "$ion_symbol_table", "null", "zz", "K1", "A", "Name", "ZZ", "Zz", "etag", "ETag"})
				if seen[k] {
					continue
				}
				seen[k] = true
				g.Keys = append(g.Keys, k)
				g.Elems = append(g.Elems, genGoVal(t, *d.Elem, depth+1))
			}
		}
	case "anntokens":
		if gen.Chance(t, 70) {
			n := gen.Range(t, 1, 3)
			for i := 0; i < n; i++ {
				g.Ann = append(g.Ann, gen.Pick(t, []string{"a", "b", "x y", "name", "é", "null"}))
			}
		}
	default: // struct / static
		for _, f := range d.Fields {
			if f.Tag == "-" {
				// never marshalled: leave zero (cannot round-trip by definition)
				g.Elems = append(g.Elems, drive.GoVal{})
				continue
			}
			fv := genGoVal(t, f.T, depth+1)
			if isWrapper(d) && fv.Dyn != nil && fv.Dyn.K == "map" {
				// an annotated Ion struct cannot be told from the wrapper itself on
				// the way back (documented limitation: the wrapper is for non-struct values)
				fv = drive.GoVal{Nil: true}
			}
			if strings.Contains(f.Tag, "symbol") {
				fixSymbolText(&fv)
			}
			g.Elems = append(g.Elems, fv)
		}
		if isWrapper(d) && len(g.Elems) == 2 && g.Elems[0].Nil && !annNullOK {
			// an annotated null: Unmarshal resets a pointer to the wrapper to nil and
			// the annotations have nowhere to go; not generated (see assumptions)
			g.Elems[1].Ann = nil
		}
	}
	return g
}

// fixSymbolText keeps $<digits>-shaped text out of symbol-tagged strings:
// WriteSymbolFromString documents that spelling as a symbol ID.
func fixSymbolText(g *drive.GoVal) {
	if drive.DollarDigits(g.S) {
		g.S = "s" + g.S
	}
	for i := range g.Elems {
		fixSymbolText(&g.Elems[i])
	}
}

func genC16(t *rapid.T) C16Case {
	var c C16Case
	c.T = genType(t, 0)
	if gen.Chance(t, 60) && c.T.K != "struct" {
		c.T = genStruct(t, 0)
	}
	c.V = genGoVal(t, c.T, 0)
	c.ByPtr = gen.Chance(t, 50)
	return c
}

func TestC16(t *testing.T) {
	p := Prop[C16Case]{ID: "C16", Sub: "roundtrip", Gen: genC16, Run: runC16, Quick: 30000, Thorough: 400000}
	RunProp(t, p)
}

func init() {
	Describe("C16",
		"cases: (Go type, value, by value / by pointer). Types are assembled at random with reflect.StructOf from bool, every integer width incl. uintptr, float32/64, string, []byte, slices, arrays, string-keyed maps, pointers, interface{}, nested and embedded structs, ion.Timestamp, time.Time, ion.Decimal, big.Int, with tag options rename / omitempty / - / symbol / clob / sexp / annotations wrapper, plus three declared shapes StructOf cannot build (embedded pointer-to-struct, unexported embedded struct with an exported field, named scalar / slice / byte-slice types); depth <= 4, <= 5 fields per struct. Values are type-directed: boundary numbers per width, NaN / infinities / -0, nil versus empty slices, maps and []byte, nil / non-nil pointers at every level, interfaces holding scalars / slices / maps, time.Time in UTC, named and unnamed fixed zones. Non-trivial: nesting >= 2 or a tag option or a pointer / interface, and not the zero value. Distinct by digest(type string, value).",
		"oracle: (1) MarshalText twice gives identical bytes; (2) the reference decoders read MarshalText and MarshalBinary output as exactly the value the documented mapping assigns (the harness's own reflection walk: flattening, tags, hints inherited by elements, nil => null, maps sorted; binary compared with struct fields as multisets); (3) Unmarshal of either output into a fresh value of the same type denotes the same value under semantic equality: NaN = NaN, nil and empty slice / map / []byte interchangeable, nil pointers and pointers to such values interchangeable, values held in interface{} compared by denotation, timestamps / decimals by Ion equivalence",
		"not generated: annotation wrappers around Ion structs / maps / pointers (the documentation lists scalar, list and interface{} value fields only) and annotated nulls in wrappers; shadowed / duplicate field names (ion-go panics by design: 'too many fields named'), non-string map keys, channels / funcs, custom Marshalers, fields tagged '-' carry the zero value, $<digits>-shaped text in symbol-tagged strings",
	)
}
