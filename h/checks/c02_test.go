package checks

import (
	"fmt"
	"testing"

	"github.com/amzn/ion-go/ion"
	"pgregory.net/rapid"

	"verif/h/drive"
	"verif/h/gen"
	"verif/h/model"
	"verif/h/reftext"
)

// C02 — the text reader decodes every valid spelling.

// printDoc renders vals with the reference printer and self-checks it with the
// reference parser.
func printDoc(vals []model.Value, c reftext.Chooser) DocCase {
	p := reftext.NewPrinter(c)
	applyPrinterExclusions(p)
	b := p.Doc(vals)
	res, err := reftext.Parse(b, reftext.Options{})
	if err != nil {
		harnessBug("reference parser rejects reference printing: %v\nvals: %s\ntext: %q", err, model.SeqString(vals), b)
	}
	if d := model.DiffSeq(vals, res.Values); d != "" {
		harnessBug("reference parse(print(x)) != x: %s\nvals: %s\ntext: %q", d, model.SeqString(vals), b)
	}
	return DocCase{Doc: b, Vals: vals, NonCanon: p.NonCanon, Dims: dimsOf(p.Choices)}
}

var printerDims = []string{"ws.vt-ff", "string.surrogate-pair-escape", "ivm.leading", "lst.declared", "symbol.sid-spelling",
	"symbol.bare-operator", "comma.trailing", "string.line-continuation", "string.raw-newline", "blob.inner-whitespace",
	"exponent.leading-zero", "exponent.plus-sign", "int.underscore", "decimal.underscore", "null.null-form", "fieldname.as-string",
	"string.long-form", "clob.long-form", "eof.trailing", "ts.day-without-T", "float.form", "decimal.form", "int.radix"}

func applyPrinterExclusions(p *reftext.Printer) {
	for _, dim := range printerDims {
		if gen.Excluded("reftext."+dim, false) {
			p.Off[dim] = true
		}
	}
}

func runC02(c DocCase) string {
	st := Stat("C02")
	classes := make([]string, 0, len(c.Dims))
	for _, d := range c.Dims {
		classes = append(classes, "spell."+d)
	}
	st.Eval(c.NonCanon > 0, model.DigestBytes("C02", c.Doc), classes...)
	st.Sample(func() string { return fmt.Sprintf("text=%q  denotes %s", clip(c.Doc, 200), model.SeqString(c.Vals)) })
	got, err := drive.Observe(ion.NewReaderBytes(c.Doc))
	if err != nil {
		return fmt.Sprintf("reader fails on a valid spelling: %v\ntext: %q\nexpected: %s", err, clip(c.Doc, 400), model.SeqString(c.Vals))
	}
	if d := model.DiffSeq(c.Vals, got); d != "" {
		return fmt.Sprintf("decoded values differ: %s\ntext: %q\nexpected: %s", d, clip(c.Doc, 400), model.SeqString(c.Vals))
	}
	return ""
}

func genC02(t *rapid.T) DocCase {
	cfg := &gen.Cfg{MaxDepth: gen.Pick(t, []int{1, 2, 3, 4}), AllowUnknown: true, Size: &gen.Size{Big: gen.Chance(t, 5)}}
	vals := gen.Seq(t, cfg, 5)
	if gen.Chance(t, 2) {
		vals = append(vals, gen.Deep(t, gen.Range(t, 10, 64)))
	}
	d := printDoc(vals, gen.RapidChooser{T: t})
	if gen.Chance(t, 10) {
		// same values, shifted so that a token needing lookahead (\r\n, ''', ::,
		// {{, //, ...) straddles the reader's 4096-byte buffer boundary
		d.Doc = alignToBuffer(d.Doc, func(n int) int { return gen.Intn(t, n) })
		d.NonCanon++
		d.Dims = append(d.Dims, "doc.aligned-to-buffer-boundary")
	}
	return d
}

func TestC02(t *testing.T) {
	p := Prop[DocCase]{ID: "C02", Sub: "spelling", Gen: genC02, Run: runC02, Quick: 20000, Thorough: 400000}
	Enumerate(t, p, "boundary-pool", func(yield func(DocCase) bool) {
		for _, v := range boundaryScalars() {
			for _, vals := range [][]model.Value{{v}, {v.WithAnn(model.S("a"), model.S("name"))}, {model.StructV(model.Field{Name: model.S("f"), Val: v}, model.Field{Name: model.S("g"), Val: v})}, {model.SexpV(v, v)}} {
				for _, ch := range []reftext.Chooser{nil, &cycleChooser{k: 1}, &cycleChooser{k: 2}, &cycleChooser{k: 3}} {
					if !yield(printDoc(vals, ch)) {
						return
					}
				}
			}
		}
	})
	RunProp(t, p)
}

func init() {
	Describe("C02",
		"cases: a value sequence (generator of C01) rendered by the harness's own spec-derived text printer whose every spelling decision is a rapid draw: whitespace (space, tab, LF, CR, CRLF, VT, FF) and both comment forms between any two tokens, int radix/case/underscores, decimal and float layouts, exponent sign and padding, short vs multi-segment long strings, every escape form including surrogate pairs and line continuations, raw newline flavours, quoted / bare / operator / $n symbols (with a declared local symbol table), field names as symbols or strings, base64 with inner whitespace, short and long clobs, timestamp offset spellings, null vs null.null, trailing commas, leading version marker, trailing comment without newline. Every document is first parsed by the harness's strict reference parser and must give back the model (self-check). Non-trivial: at least one non-canonical spelling decision. Distinct by digest(text).",
		"oracle: reference model equality (harness printer/parser written from the Ion 1.0 text grammar)",
		"not emitted because legality could not be settled offline: -0 as an int, lowercase t/z in timestamps, underscores in exponents, a number or keyword directly followed by an operator or comment, operators ending in + - . directly before another token",
	)
}
