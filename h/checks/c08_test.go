package checks

import (
	"bytes"
	"fmt"
	"math"
	"strings"
	"testing"
	"testing/iotest"

	"github.com/amzn/ion-go/ion"
	"pgregory.net/rapid"

	"verif/h/drive"
	"verif/h/gen"
	"verif/h/model"
)

// C08 — what a Reader returns does not depend on how the caller navigated.
//
// Oracle: the value tree a plain full traversal of the same document yields
// (ion-go's own, which must also agree with the generated model), walked by a
// reference cursor that mirrors every navigation step of the program.

type C08Case struct {
	Doc     []byte        `json:"doc"`
	Vals    []model.Value `json:"vals"`
	Binary  bool          `json:"binary"`
	OneByte bool          `json:"onebyte,omitempty"` // deliver the input one byte per Read
	Ops     []int         `json:"ops"`
}

// c08Frame is one level of the reference cursor.
type c08Frame struct {
	kids     []model.Value
	names    []model.Sym // non-nil for struct members
	idx      int         // index of the current child, -1 before the first Next
	on       bool        // positioned on kids[idx]
	eof      bool        // Next returned false at this level
	consumed bool        // kids[idx] was fully read (or stepped through)
}

func c08FrameOf(v model.Value) *c08Frame {
	f := &c08Frame{idx: -1}
	if v.Kind == model.Struct {
		f.names = make([]model.Sym, 0, len(v.Fields))
		for _, fl := range v.Fields {
			f.kids = append(f.kids, fl.Val)
			f.names = append(f.names, fl.Name)
		}
		return f
	}
	f.kids = v.Elems
	return f
}

func c08SymEq(a, b model.Sym) bool {
	if a.Known != b.Known {
		return false
	}
	return !a.Known || a.Text == b.Text
}

// c08Shallow compares Type, IsNull, Annotations, FieldName, IsInStruct of the
// value r is positioned on with the reference node.
func c08Shallow(r ion.Reader, f *c08Frame) string {
	want := f.kids[f.idx]
	k, ok := drive.KindOf(r.Type())
	if !ok || k != want.Kind {
		return fmt.Sprintf("Type()=%v, full traversal saw %v", r.Type(), want.Kind)
	}
	if r.IsNull() != want.IsNull {
		return fmt.Sprintf("IsNull()=%v, full traversal saw %v", r.IsNull(), want.IsNull)
	}
	as, err := r.Annotations()
	if err != nil {
		return fmt.Sprintf("Annotations() error: %v", err)
	}
	if len(as) != len(want.Ann) {
		return fmt.Sprintf("Annotations() has %d entries, full traversal saw %d", len(as), len(want.Ann))
	}
	for i := range as {
		if !c08SymEq(drive.SymOf(&as[i]), want.Ann[i]) {
			return fmt.Sprintf("Annotations()[%d]=%v, full traversal saw %v", i, drive.SymOf(&as[i]), want.Ann[i])
		}
	}
	if f.names != nil {
		if !r.IsInStruct() {
			return "IsInStruct()=false on a struct member"
		}
		fn, err := r.FieldName()
		if err != nil {
			return fmt.Sprintf("FieldName() error: %v", err)
		}
		if fn == nil {
			return "FieldName()=nil on a struct member"
		}
		if !c08SymEq(drive.SymOf(fn), f.names[f.idx]) {
			return fmt.Sprintf("FieldName()=%v, full traversal saw %v", drive.SymOf(fn), f.names[f.idx])
		}
	} else if r.IsInStruct() {
		return "IsInStruct()=true outside a struct"
	}
	return ""
}

// c08Accessors calls every accessor that matches kind k, in an order chosen by
// pick, and renders the results; calling them again (in another order) must give
// the same results: no accessor may change what another one reports.
func c08Accessors(r ion.Reader, k model.Kind, pick int) string {
	type acc struct {
		name string
		call func() string
	}
	var all []acc
	switch k {
	case model.Int:
		all = []acc{
			{"IntSize", func() string { v, err := r.IntSize(); return fmt.Sprint(v, err) }},
			{"IntValue", func() string {
				v, err := r.IntValue()
				if v == nil {
					return fmt.Sprint("nil ", err)
				}
				return fmt.Sprint(*v, err)
			}},
			{"Int64Value", func() string {
				v, err := r.Int64Value()
				if v == nil {
					return fmt.Sprint("nil ", err)
				}
				return fmt.Sprint(*v, err)
			}},
			{"BigIntValue", func() string { v, err := r.BigIntValue(); return fmt.Sprint(v, err) }},
		}
	case model.Bool:
		all = []acc{{"BoolValue", func() string {
			v, err := r.BoolValue()
			if v == nil {
				return fmt.Sprint("nil ", err)
			}
			return fmt.Sprint(*v, err)
		}}}
	case model.Float:
		all = []acc{{"FloatValue", func() string {
			v, err := r.FloatValue()
			if v == nil {
				return fmt.Sprint("nil ", err)
			}
			return fmt.Sprint(math.Float64bits(*v), err)
		}}}
	case model.Decimal:
		all = []acc{{"DecimalValue", func() string { v, err := r.DecimalValue(); return fmt.Sprint(v, err) }}}
	case model.Timestamp:
		all = []acc{{"TimestampValue", func() string {
			v, err := r.TimestampValue()
			if v == nil {
				return fmt.Sprint("nil ", err)
			}
			return fmt.Sprint(v.String(), err)
		}}}
	case model.String:
		all = []acc{{"StringValue", func() string {
			v, err := r.StringValue()
			if v == nil {
				return fmt.Sprint("nil ", err)
			}
			return fmt.Sprintf("%q %v", *v, err)
		}}}
	case model.Symbol:
		all = []acc{{"SymbolValue", func() string {
			v, err := r.SymbolValue()
			if v == nil {
				return fmt.Sprint("nil ", err)
			}
			return fmt.Sprintf("%v %v", v.String(), err)
		}}}
	case model.Clob, model.Blob:
		all = []acc{{"ByteValue", func() string { v, err := r.ByteValue(); return fmt.Sprintf("%x %v %v", v, v == nil, err) }}}
	default:
		return ""
	}
	first := map[string]string{}
	for i := range all {
		a := all[(pick+i)%len(all)]
		first[a.name] = a.call()
	}
	for i := len(all) - 1; i >= 0; i-- {
		a := all[(pick/4+i)%len(all)]
		if again := a.call(); again != first[a.name] {
			return fmt.Sprintf("%s returned %s, and %s when called again after the other accessors", a.name, first[a.name], again)
		}
	}
	return ""
}

// c08Wrong calls an accessor that does not match kind k (result ignored).
func c08Wrong(r ion.Reader, k model.Kind, pick int) string {
	type acc struct {
		name string
		kind model.Kind
		call func()
	}
	all := []acc{
		{"BoolValue", model.Bool, func() { _, _ = r.BoolValue() }},
		{"IntSize", model.Int, func() { _, _ = r.IntSize() }},
		{"IntValue", model.Int, func() { _, _ = r.IntValue() }},
		{"Int64Value", model.Int, func() { _, _ = r.Int64Value() }},
		{"BigIntValue", model.Int, func() { _, _ = r.BigIntValue() }},
		{"FloatValue", model.Float, func() { _, _ = r.FloatValue() }},
		{"DecimalValue", model.Decimal, func() { _, _ = r.DecimalValue() }},
		{"TimestampValue", model.Timestamp, func() { _, _ = r.TimestampValue() }},
		{"StringValue", model.String, func() { _, _ = r.StringValue() }},
		{"SymbolValue", model.Symbol, func() { _, _ = r.SymbolValue() }},
		{"ByteValue", model.Blob, func() { _, _ = r.ByteValue() }},
	}
	for i := 0; i < len(all); i++ {
		a := all[(pick+i)%len(all)]
		if a.kind == k || (a.kind == model.Blob && k == model.Clob) {
			continue
		}
		a.call()
		return a.name
	}
	return ""
}

func c08Reader(c C08Case) ion.Reader {
	if c.OneByte {
		return ion.NewReader(iotest.OneByteReader(bytes.NewReader(c.Doc)))
	}
	return ion.NewReaderBytes(c.Doc)
}

func runC08(c C08Case) string {
	st := Stat("C08")
	// reference: a plain full traversal
	ref, err := drive.Observe(c08Reader(c))
	if err != nil || model.DiffSeq(c.Vals, ref) != "" {
		// the document itself is not read correctly: C02 / C03's business
		st.Discard("full_traversal_disagrees_with_model")
		return ""
	}
	var trace []string
	classes := map[string]bool{}
	fail := func(format string, a ...interface{}) string {
		doc := fmt.Sprintf("text: %q", clip(c.Doc, 400))
		if c.Binary {
			doc = fmt.Sprintf("bytes: % x", clip(c.Doc, 300))
		}
		return fmt.Sprintf("%s\nprogram so far: %s\n%s\nfull traversal: %s", fmt.Sprintf(format, a...), strings.Join(trace, " "), doc, model.SeqString(ref))
	}
	var msg string
	panicked := false
	func() {
		defer func() {
			if p := recover(); p != nil {
				// a panic is a violation of C06, not of this property; the case ends here
				panicked = true
			}
		}()
		r := c08Reader(c)
		stack := []*c08Frame{c08FrameOf(model.Value{Kind: model.List, Elems: ref})}
		top := func() *c08Frame { return stack[len(stack)-1] }
		// doNext performs Next and checks it against the cursor.
		doNext := func() string {
			f := top()
			if f.on && !f.consumed {
				if f.kids[f.idx].Kind.IsContainer() && !f.kids[f.idx].IsNull {
					classes["skip-unread-container"] = true
				} else {
					classes["skip-unread-scalar"] = true
				}
			}
			got := r.Next()
			if f.eof {
				if got {
					return "Next() returned true after it had returned false at this level"
				}
				return ""
			}
			f.idx++
			f.consumed = false
			if f.idx >= len(f.kids) {
				f.on, f.eof = false, true
				if got {
					return fmt.Sprintf("Next() returned true (type %v) but the full traversal saw the end of this level", r.Type())
				}
				if e := r.Err(); e != nil {
					return fmt.Sprintf("Next() returned false with Err()=%v where the full traversal saw a clean end of this level", e)
				}
				// at the end of a level there is no current value: no type, no field
				// name, no annotations (documented)
				if ty := r.Type(); ty != ion.NoType {
					return fmt.Sprintf("after the last value of a level: Type() = %v, want NoType", ty)
				}
				if fn, _ := r.FieldName(); fn != nil {
					return fmt.Sprintf("after the last value of a level: FieldName() = %v, want nil", drive.SymOf(fn))
				}
				if as, _ := r.Annotations(); len(as) != 0 {
					return fmt.Sprintf("after the last value of a level: Annotations() = %v", as)
				}
				return ""
			}
			f.on = true
			if !got {
				return fmt.Sprintf("Next() returned false (Err()=%v) but the full traversal saw %s here", r.Err(), model.SeqString(f.kids[f.idx:f.idx+1]))
			}
			return c08Shallow(r, f)
		}
		hold := &drive.Holder{}
		doRead := func() string {
			f := top()
			got, err := drive.ObserveCurrentH(r, hold)
			if err != nil {
				return fmt.Sprintf("reading the current value fails: %v (full traversal saw %s)", err, model.SeqString(f.kids[f.idx:f.idx+1]))
			}
			if d := model.Diff(f.kids[f.idx], got); d != "" {
				return fmt.Sprintf("current value differs from the full traversal: %s", d)
			}
			f.consumed = true
			if got.Kind.IsContainer() && !got.IsNull {
				f.on = false // ObserveCurrent stepped in and out
			}
			return ""
		}
		for _, op := range c.Ops {
			f := top()
			// op%20 indexes an interleaved action table (rapid favours small draws);
			// the action is then mapped onto the numeric ranges used below
			kind, arg := c08Table[op%20], op/20
			// steps that need a current value become Next when there is none
			if kind >= 7 && !f.on && !(kind >= 10 && kind < 12) {
				kind = 0
			}
			// Next after the end of a container is not issued: step out instead
			if kind < 7 && f.eof && len(stack) > 1 {
				kind = 100
			}
			switch {
			case kind < 7:
				trace = append(trace, "next")
				msg = doNext()
			case kind < 10:
				v := f.kids[f.idx]
				err := r.StepIn()
				if v.Kind.IsContainer() && !v.IsNull {
					trace = append(trace, "stepin")
					if err != nil {
						msg = fmt.Sprintf("StepIn() on a %v fails: %v", v.Kind, err)
						break
					}
					f.consumed = true
					stack = append(stack, c08FrameOf(v))
				} else {
					trace = append(trace, "stepin(refused)")
					classes["refused-stepin"] = true
					if err == nil {
						msg = fmt.Sprintf("StepIn() on a %v (null=%v) succeeded", v.Kind, v.IsNull)
					}
				}
			case kind < 12 || kind == 100:
				err := r.StepOut()
				if len(stack) == 1 {
					trace = append(trace, "stepout(refused)")
					classes["refused-stepout"] = true
					if err == nil {
						msg = "StepOut() at top level succeeded"
					}
					break
				}
				trace = append(trace, "stepout")
				if err != nil {
					msg = fmt.Sprintf("StepOut() fails: %v", err)
					break
				}
				if !f.eof {
					classes["stepout-early"] = true
				}
				stack = stack[:len(stack)-1]
				top().on = false
				// between StepOut and the next Next there is no current value: nothing
				// of the child the reader stood on may linger
				if ty := r.Type(); ty != ion.NoType {
					msg = fmt.Sprintf("after StepOut, before the next Next: Type() = %v, want NoType", ty)
					break
				}
				if as, _ := r.Annotations(); len(as) != 0 {
					msg = fmt.Sprintf("after StepOut, before the next Next: Annotations() = %v", as)
					break
				}
				if arg%2 == 1 {
					if err := r.StepIn(); err == nil {
						msg = "StepIn() right after StepOut (no current value) succeeded"
						break
					}
					classes["refused-stepin"] = true
				}
			case kind < 15:
				trace = append(trace, "read")
				if arg%2 == 1 {
					if msg = c08Accessors(r, f.kids[f.idx].Kind, arg/2); msg != "" {
						break
					}
					classes["accessors-any-order"] = true
				}
				msg = doRead()
			case kind < 18:
				name := c08Wrong(r, f.kids[f.idx].Kind, arg)
				trace = append(trace, "wrong:"+name)
				classes["wrong-accessor"] = true
				if msg = c08Shallow(r, f); msg != "" {
					msg = "after " + name + ": " + msg
				}
			default:
				trace = append(trace, "recheck")
				msg = c08Shallow(r, f)
			}
			if msg != "" {
				return
			}
		}
		// drain: a plain traversal of everything that is left
		trace = append(trace, "| drain:")
		for {
			f := top()
			for !f.eof {
				trace = append(trace, "next")
				if msg = doNext(); msg != "" {
					return
				}
				if f.on {
					trace = append(trace, "read")
					if msg = doRead(); msg != "" {
						return
					}
				}
			}
			if len(stack) == 1 {
				break
			}
			trace = append(trace, "stepout")
			if err := r.StepOut(); err != nil {
				msg = fmt.Sprintf("StepOut() fails: %v", err)
				return
			}
			stack = stack[:len(stack)-1]
			top().on = false
		}
		if r.Next() {
			msg = "Next() returned true after the end of the stream"
			return
		}
		if e := r.Err(); e != nil {
			msg = fmt.Sprintf("Err()=%v at the end of a document the full traversal read cleanly", e)
			return
		}
		if e := hold.Check(); e != nil {
			msg = e.Error()
		}
	}()
	if panicked {
		st.Discard("panic_during_navigation(C06)")
		return ""
	}
	cl := []string{"format.text"}
	if c.Binary {
		cl[0] = "format.binary"
	}
	if c.OneByte {
		cl = append(cl, "one-byte-reads")
	}
	nontrivial := false
	for k := range classes {
		if k == "skip-unread-container" || k == "skip-unread-scalar" || k == "stepout-early" || strings.HasPrefix(k, "refused") || k == "wrong-accessor" {
			nontrivial = true
		}
	}
	for _, k := range []string{"skip-unread-container", "skip-unread-scalar", "stepout-early", "refused-stepin", "refused-stepout", "wrong-accessor", "accessors-any-order"} {
		if classes[k] {
			cl = append(cl, k)
		}
	}
	h := model.DigestBytes("C08", c.Doc)
	for _, o := range c.Ops {
		h = h*1099511628211 ^ uint64(o%20) ^ uint64(o/20%2)<<8
	}
	st.Eval(nontrivial, h, cl...)
	st.Sample(func() string {
		if c.Binary {
			return fmt.Sprintf("bytes=% x program=%s", clip(c.Doc, 60), strings.Join(trace, " "))
		}
		return fmt.Sprintf("text=%q program=%s", clip(c.Doc, 100), strings.Join(trace, " "))
	})
	if msg != "" {
		return fail("%s", msg)
	}
	return ""
}

// c08Table spreads the actions over 0..19: 0-6 next, 7-9 step in, 10-11 step out,
// 12-14 read, 15-17 wrong accessor, 18-19 re-check.
var c08Table = [20]int{0, 7, 12, 10, 15, 0, 18, 0, 7, 12, 0, 10, 15, 0, 7, 12, 0, 15, 18, 0}

// c08Tricky are scalars whose text spelling contains characters the skip
// grammar must not mistake for structure.
func c08Tricky() []model.Value {
	return []model.Value{
		model.StrV("]"), model.StrV("}"), model.StrV(")"), model.StrV("\""), model.StrV("'''"), model.StrV("//"), model.StrV("/*"),
		model.StrV("{{"), model.StrV("}}"), model.StrV("\\"), model.StrV("a\nb"), model.StrV("'"),
		model.SymV(model.S("]")), model.SymV(model.S("}")), model.SymV(model.S("'")), model.SymV(model.S("\"")), model.SymV(model.S("//")),
		model.SymV(model.S("{{")), model.SymV(model.S("*/")),
		model.ClobV([]byte("}")), model.ClobV([]byte("}}")), model.ClobV([]byte("\"")), model.ClobV([]byte("]")), model.ClobV([]byte("'''")),
		model.ClobV([]byte("//")), model.ClobV([]byte("\\")),
		model.BlobV([]byte{0xff, 0xfe}), model.BlobV(nil), model.BlobV([]byte("}}}")),
		model.StrV("x").WithAnn(model.S("]")), model.Int64V(7).WithAnn(model.S("'"), model.S("}")),
	}
}

func genC08(t *rapid.T) C08Case {
	cfg := &gen.Cfg{MaxDepth: gen.Pick(t, []int{2, 3, 4}), AllowUnknown: true, Size: &gen.Size{Big: gen.Chance(t, 4)}}
	vals := gen.Seq(t, cfg, 4)
	tricky := c08Tricky()
	if gen.Chance(t, 60) {
		n := gen.Range(t, 1, 4)
		var elems []model.Value
		for i := 0; i < n; i++ {
			if gen.Chance(t, 70) {
				elems = append(elems, gen.Pick(t, tricky))
			} else {
				elems = append(elems, gen.Value(t, cfg))
			}
		}
		var w model.Value
		switch gen.Intn(t, 3) {
		case 0:
			w = model.ListV(elems...)
		case 1:
			w = model.SexpV(elems...)
		default:
			var fs []model.Field
			for _, e := range elems {
				fs = append(fs, model.Field{Name: gen.Pick(t, []model.Sym{model.S("f"), model.S("]"), model.S("}"), model.S("'"), model.S("name")}), Val: e})
			}
			w = model.StructV(fs...)
		}
		if gen.Chance(t, 30) {
			w = model.ListV(w, model.Int64V(1))
		}
		vals = append(vals, w, model.Int64V(int64(gen.Range(t, 0, 9))))
	}
	if gen.Chance(t, 3) {
		vals = append(vals, gen.Deep(t, gen.Range(t, 5, 40)))
	}
	vals = gen.SanitizeTop(vals)
	c := C08Case{Binary: gen.Intn(t, 3) == 1, OneByte: gen.Intn(t, 8) == 3}
	var d DocCase
	if c.Binary {
		d = encodeDoc(vals, gen.RapidChooser{T: t})
	} else {
		d = printDoc(vals, gen.RapidChooser{T: t})
		if gen.Chance(t, 8) {
			d.Doc = alignToBuffer(d.Doc, func(n int) int { return gen.Intn(t, n) })
		}
	}
	c.Doc, c.Vals = d.Doc, d.Vals
	n := gen.Range(t, 1, 40)
	for i := 0; i < n; i++ {
		c.Ops = append(c.Ops, gen.Intn(t, 20)+20*gen.Intn(t, 11))
	}
	return c
}

func TestC08(t *testing.T) {
	p := Prop[C08Case]{ID: "C08", Sub: "navigation", Gen: genC08, Run: runC08, Quick: 20000, Thorough: 300000}
	// enumerated: every program of length <= 6 over {next, stepin, stepout, read}
	// on a fixed set of small documents with skip-hostile content, both formats
	EnumerateSharded(t, p, "short-programs", func(shard, nshards int, yield func(C08Case) bool) {
		tr := c08Tricky()
		var docs [][]model.Value
		for i := 0; i+1 < len(tr); i += 2 {
			docs = append(docs,
				[]model.Value{model.ListV(tr[i], tr[i+1]), model.Int64V(1)},
				[]model.Value{model.StructV(model.Field{Name: model.S("f"), Val: model.SexpV(tr[i])}, model.Field{Name: model.S("}"), Val: tr[i+1]}), model.Int64V(1)},
			)
		}
		alphabet := []int{0, 1, 3, 2} // next, step in, step out, read (indices into c08Table)
		maxLen := 6
		if Thorough() {
			maxLen = 7
		}
		n := 0
		for _, vals := range docs {
			for _, binary := range []bool{false, true} {
				var d DocCase
				if binary {
					d = encodeDoc(vals, nil)
				} else {
					d = printDoc(vals, nil)
				}
				var rec func(ops []int) bool
				rec = func(ops []int) bool {
					if len(ops) > 0 {
						n++
						if n%nshards == shard {
							if !yield(C08Case{Doc: d.Doc, Vals: d.Vals, Binary: binary, Ops: append([]int{}, ops...)}) {
								return false
							}
						}
					}
					if len(ops) == maxLen {
						return true
					}
					for _, a := range alphabet {
						if !rec(append(ops, a)) {
							return false
						}
					}
					return true
				}
				if !rec(nil) {
					return
				}
			}
		}
	})
	// containers longer than 64 KiB nested in other containers (skipped in several
	// steps by the binary reader): every program up to length 4
	EnumerateSharded(t, p, "big-nested-containers", func(shard, nshards int, yield func(C08Case) bool) {
		big := make([]byte, 70000)
		for i := range big {
			big[i] = byte('a' + i%26)
		}
		var ints []model.Value
		for i := 0; i < 24000; i++ {
			ints = append(ints, model.Int64V(int64(i*7919)))
		}
		docs := [][]model.Value{
			{model.ListV(model.StructV(model.Field{Name: model.S("a"), Val: model.BlobV(big)}, model.Field{Name: model.S("b"), Val: model.ListV(model.Int64V(1), model.StrV("x"))}), model.Int64V(2)), model.Int64V(3)},
			{model.StructV(model.Field{Name: model.S("p"), Val: model.ListV(model.StrV(string(big[:66000])), model.Int64V(1))}, model.Field{Name: model.S("q"), Val: model.SexpV(ints...)}, model.Field{Name: model.S("r"), Val: model.Int64V(4)}), model.Int64V(5)},
		}
		alphabet := []int{0, 1, 3, 2}
		n := 0
		for _, vals := range docs {
			for _, binary := range []bool{true, false} {
				var d DocCase
				if binary {
					d = encodeDoc(vals, nil)
				} else {
					d = printDoc(vals, nil)
				}
				var rec func(ops []int) bool
				rec = func(ops []int) bool {
					if len(ops) > 0 {
						n++
						if n%nshards == shard {
							if !yield(C08Case{Doc: d.Doc, Vals: d.Vals, Binary: binary, Ops: append([]int{}, ops...)}) {
								return false
							}
						}
					}
					if len(ops) == 4 {
						return true
					}
					for _, a := range alphabet {
						if !rec(append(ops, a)) {
							return false
						}
					}
					return true
				}
				if !rec(nil) {
					return
				}
			}
		}
	})
	RunProp(t, p)
}

func init() {
	Describe("C08",
		"cases: (document, navigation program). Documents are generated value streams (generator of C01 plus containers filled with skip-hostile scalars: strings, symbols, clobs, blobs, annotations and field names made of brackets, quotes and comment openers) rendered by the reference text printer with random spelling (comments, long strings, escapes) or by the reference binary encoder with random representation (length forms, NOP pads, wrappers), sometimes delivered one byte per Read. Programs are 1-40 steps over {Next, StepIn, StepOut, full read of the current value, an accessor of the wrong type, re-query of Type/IsNull/Annotations/FieldName} including StepIn on scalars and nulls and StepOut at top level, followed by a plain traversal of everything that is left. A reference cursor over the value tree of a plain full traversal predicts every Next result, the attributes of every value reached and every value read. Plus every program up to length 6 (7 in thorough) over {Next, StepIn, StepOut, read} on ~30 small hostile documents in both formats, and every program up to length 4 on two documents whose nested containers exceed 64 KiB. Non-trivial: the program skipped an unread value, left a container early, or issued a refused call. Distinct by digest(document, program).",
		"oracle: metamorphic — ion-go's own plain full traversal of the same bytes, which must first agree with the generated model (otherwise the case is discarded as C02/C03's business)",
		"Next after the end of a container and StepIn with no current value are not issued (not among the refusals the property lists)",
		"a panic during navigation ends the case and is counted under discarded (C06's business)",
	)
}
