package checks

import (
	"bytes"
	"fmt"
	"testing"

	"github.com/amzn/ion-go/ion"
	"pgregory.net/rapid"

	"verif/h/drive"
	"verif/h/gen"
	"verif/h/model"
)

// C01 — write-then-read round trip in all writer modes.

type C01Case struct {
	Mode  int           `json:"mode"` // 0 text, 1 pretty, 2 binary
	Picks []int         `json:"picks"`
	Vals  []model.Value `json:"vals"`
	// FinishAfter: Finish is also called after the values with these indexes
	// (several datagrams from one writer)
	FinishAfter []int `json:"finish_after,omitempty"`
}

func pickerOf(picks []int) drive.Picker {
	i := 0
	return func(n int) int {
		if len(picks) == 0 || n <= 1 {
			return 0
		}
		v := picks[i%len(picks)] % n
		i++
		if v < 0 {
			v = -v
		}
		return v
	}
}

// writeDoc drives an ion-go writer over vals; returns bytes and the writer error.
func writeDoc(mode drive.Mode, vals []model.Value, picks []int, ssts ...ion.SharedSymbolTable) ([]byte, error) {
	var buf bytes.Buffer
	err := drive.Guard(func() error {
		w := drive.NewWriter(mode, &buf, ssts...)
		if err := drive.WriteSeq(w, vals, pickerOf(picks)); err != nil {
			return err
		}
		return w.Finish()
	})
	return buf.Bytes(), err
}

// writeDocFin is writeDoc with Finish also called after the values listed in fin.
func writeDocFin(mode drive.Mode, vals []model.Value, picks []int, fin []int) ([]byte, error) {
	if len(fin) == 0 {
		return writeDoc(mode, vals, picks)
	}
	var buf bytes.Buffer
	err := drive.Guard(func() error {
		w := drive.NewWriter(mode, &buf)
		pk := pickerOf(picks)
		after := map[int]bool{}
		for _, i := range fin {
			after[i] = true
		}
		for i := range vals {
			if err := drive.WriteSeq(w, vals[i:i+1], pk); err != nil {
				return err
			}
			if after[i] {
				if err := w.Finish(); err != nil {
					return err
				}
			}
		}
		return w.Finish()
	})
	return buf.Bytes(), err
}

// valueTraits classifies a sequence for the non-triviality rule shared by C01/C04.
func valueTraits(vals []model.Value) (nontrivial bool, classes []string) {
	set := map[string]bool{}
	for _, v := range vals {
		if v.Depth() >= 2 {
			set["nesting>=2"] = true
		}
		if v.Depth() >= 3 {
			set["nesting>=3"] = true
		}
		v.Walk(func(x model.Value) {
			if len(x.Ann) > 0 {
				set["annotation"] = true
			}
			if x.IsNull && x.Kind != model.Null {
				set["typed-null"] = true
			}
			if x.IsNull {
				return
			}
			switch x.Kind {
			case model.Int:
				if gen.IsBoundaryInt(x.Int) {
					set["boundary-int"] = true
				}
				if x.Int.BitLen() > 64 {
					set["int>64bit"] = true
				}
			case model.Float:
				if x.Float != x.Float || x.Float == 0 || x.Float > 1e300 || x.Float < -1e300 {
					set["special-float"] = true
				}
			case model.Decimal:
				if x.Dec.NegZero || x.Dec.Exp > 63 || x.Dec.Exp < -63 || x.Dec.Coef.BitLen() > 63 {
					set["boundary-decimal"] = true
				}
			case model.Timestamp:
				if x.TS.FracDigits > 0 || (x.TS.OffsetKnown && x.TS.Offset != 0) {
					set["ts-fraction-or-offset"] = true
				}
			case model.String:
				if needsEscapeOrNonASCII(x.Text) {
					set["text-escape-or-nonascii"] = true
				}
				if len(x.Text) >= 14 {
					set["payload>=14"] = true
				}
				if len(x.Text) >= 128 {
					set["payload>=128"] = true
				}
			case model.Symbol:
				if x.Sym.Known && symbolLooksReserved(x.Sym.Text) {
					set["reserved-looking-symbol"] = true
				}
				if !x.Sym.Known {
					set["symbol-$0"] = true
				}
			case model.Clob, model.Blob:
				if len(x.Bytes) >= 14 {
					set["payload>=14"] = true
				}
			case model.Struct:
				for _, f := range x.Fields {
					if f.Name.Known && symbolLooksReserved(f.Name.Text) {
						set["reserved-looking-fieldname"] = true
					}
				}
			}
			for _, a := range x.Ann {
				if a.Known && symbolLooksReserved(a.Text) {
					set["reserved-looking-annotation"] = true
				}
			}
		})
	}
	for k := range set {
		classes = append(classes, k)
	}
	return len(set) > 0, classes
}

func needsEscapeOrNonASCII(s string) bool {
	for i := 0; i < len(s); i++ {
		c := s[i]
		if c < 0x20 || c >= 0x7F || c == '"' || c == '\\' || c == '\'' {
			return true
		}
	}
	return false
}

func symbolLooksReserved(s string) bool {
	if s == "" || drive.DollarDigits(s) {
		return true
	}
	switch s {
	case "null", "true", "false", "nan", "+inf", "-inf", "$ion_1_0", "$ion_symbol_table", "$ion":
		return true
	}
	c := s[0]
	isStart := c == '_' || c == '$' || (c >= 'a' && c <= 'z') || (c >= 'A' && c <= 'Z')
	if !isStart {
		return true
	}
	for i := 1; i < len(s); i++ {
		c := s[i]
		if !(c == '_' || c == '$' || (c >= 'a' && c <= 'z') || (c >= 'A' && c <= 'Z') || (c >= '0' && c <= '9')) {
			return true
		}
	}
	return false
}

func runC01(c C01Case) string {
	st := Stat("C01")
	mode := drive.Mode(c.Mode)
	out, werr := writeDocFin(mode, c.Vals, c.Picks, c.FinishAfter)
	nt, classes := valueTraits(c.Vals)
	classes = append(classes, "mode."+mode.String())
	if len(c.FinishAfter) > 0 {
		classes = append(classes, "several-datagrams")
	}
	if werr != nil {
		st.Discard("writer_refused")
		st.Discard("writer_refused: " + firstLine(werr.Error(), 60))
		return ""
	}
	st.Eval(nt, model.Digest(c.Vals)^uint64(c.Mode+1+8*len(c.FinishAfter))*0x9E3779B97F4A7C15, classes...)
	st.Sample(func() string { return fmt.Sprintf("mode=%v vals=%s", mode, model.SeqString(c.Vals)) })
	got, rerr := drive.Observe(ion.NewReaderBytes(out))
	if rerr != nil {
		return fmt.Sprintf("mode=%v: reader fails on writer output: %v\noutput: %s", mode, rerr, showBytes(out, mode))
	}
	if d := model.DiffSeq(c.Vals, got); d != "" {
		return fmt.Sprintf("mode=%v: read back differs: %s\noutput: %s", mode, d, showBytes(out, mode))
	}
	return ""
}

func firstLine(s string, max int) string {
	for i := 0; i < len(s); i++ {
		if s[i] == '\n' {
			s = s[:i]
			break
		}
	}
	if len(s) > max {
		s = s[:max]
	}
	return s
}

func showBytes(b []byte, mode drive.Mode) string {
	if len(b) > 400 {
		b = b[:400]
	}
	if mode == drive.Binary {
		return fmt.Sprintf("% x", b)
	}
	return fmt.Sprintf("%q", b)
}

func genPicks(t *rapid.T) []int {
	n := gen.Range(t, 0, 6)
	out := make([]int, n)
	for i := range out {
		out[i] = gen.Intn(t, 6)
	}
	return out
}

func genC01(t *rapid.T) C01Case {
	cfg := &gen.Cfg{MaxDepth: gen.Pick(t, []int{1, 2, 3, 5}), AllowUnknown: true, Size: &gen.Size{Big: gen.Chance(t, 10)}}
	c := C01Case{Mode: gen.Intn(t, 3), Picks: genPicks(t)}
	c.Vals = gen.Seq(t, cfg, 6)
	if gen.Chance(t, 3) {
		c.Vals = append(c.Vals, gen.Deep(t, gen.Range(t, 10, 64)))
	}
	if gen.Chance(t, 30) {
		// several datagrams; half of the time the later ones repeat earlier values
		// (no symbol that is new to the writer's table)
		if gen.Chance(t, 50) && len(c.Vals) > 0 {
			c.Vals = append(c.Vals, c.Vals[:gen.Range(t, 1, len(c.Vals))]...)
		}
		for i := range c.Vals {
			if gen.Chance(t, 40) {
				c.FinishAfter = append(c.FinishAfter, i)
			}
		}
	}
	return c
}

// boundaryScalars is the enumerated pool "every scalar boundary value".
func boundaryScalars() []model.Value {
	var out []model.Value
	for _, i := range gen.BoundaryInts() {
		out = append(out, model.IntV(i))
	}
	for _, f := range gen.FloatPool {
		out = append(out, model.FloatV(f))
	}
	for _, n := range gen.LenPool {
		b := make([]byte, n)
		for i := range b {
			b[i] = byte('a' + i%26)
		}
		out = append(out, model.StrV(string(b)), model.BlobV(b), model.ClobV(b))
		if n > 0 && n < 300 {
			out = append(out, model.SymV(model.S(string(b))))
		}
	}
	for k := model.Null; k <= model.Struct; k++ {
		out = append(out, model.NullOf(k))
	}
	out = append(out, model.BoolV(true), model.BoolV(false), model.ListV(), model.SexpV(), model.StructV())
	return out
}

func TestC01(t *testing.T) {
	p := Prop[C01Case]{ID: "C01", Sub: "roundtrip", Gen: genC01, Run: runC01, Quick: 20000, Thorough: 200000}
	Enumerate(t, p, "boundary-pool", func(yield func(C01Case) bool) {
		for _, v := range boundaryScalars() {
			shapes := [][]model.Value{
				{v},
				{v.WithAnn(model.S("a"))},
				{model.StructV(model.Field{Name: model.S("f"), Val: v})},
				{model.ListV(v, v)},
				{model.SexpV(v)},
			}
			for mode := 0; mode < 3; mode++ {
				for _, vals := range shapes {
					for _, picks := range [][]int{nil, {1, 1, 1}} {
						if !yield(C01Case{Mode: mode, Vals: vals, Picks: picks}) {
							return
						}
					}
				}
			}
		}
	})
	RunProp(t, p)
}

func init() {
	Describe("C01",
		"cases: (writer mode, value sequence, API-route picks). Values are rapid-generated over all 13 types x {value, typed null} with boundary pools (ints +-(2^k+d), float specials and float32 neighbours, decimal exponents at VarInt boundaries, calendar-boundary timestamps, payload lengths 0/1/13/14/127/128/16383/16384, symbol text that looks reserved) plus an enumerated boundary pool x 5 shapes x 3 modes. Non-trivial: the sequence contains an annotation, nesting >= 2, a typed null, a boundary number, text needing escapes or non-ASCII, a reserved-looking symbol/field name/annotation, or a payload >= 14 bytes. Distinct by digest(mode, values).",
		"oracle: ion-go's own Reader is the inverse (symmetric writer/reader mistakes are C04's job)",
		"conditional on the writer finishing without error; refused sequences are counted under discarded.writer_refused",
		"writer domain: valid UTF-8 text, decimal exponents within int32 (not -2^31), local years 1..9999",
	)
}
