package checks

import (
	"bytes"
	"encoding/json"
	"fmt"
	"os"
	"path/filepath"
	"reflect"
	"runtime"
	"strings"
	"sync"
	"sync/atomic"
	"testing"

	"github.com/amzn/ion-go/ion"
	"pgregory.net/rapid"

	"verif/h/drive"
	"verif/h/gen"
	"verif/h/model"
)

// C18 — independent readers, writers and marshal calls can run concurrently.

// C18Op is one operation of a goroutine's script: Kind selects the API, Arg
// selects the data from fixed pools.
type C18Op struct {
	Kind int `json:"k"`
	Arg  int `json:"a"`
}

type C18Case struct {
	Scripts    [][]C18Op `json:"scripts"`
	GoMaxProcs int       `json:"gomaxprocs"`
	Yield      bool      `json:"yield"` // runtime.Gosched between operations
}

var c18Kinds = []string{"binary-writer+ssts", "binary-writer+fixed-lst", "text-writer+ssts", "reader+catalog", "marshal", "unmarshal", "adjust+use", "catalog-lookups", "table-lookups", "decimal/timestamp", "builder", "copy-reader-to-writer", "unmarshal-wrapper", "built-table+builder-goes-on", "annotations-from-shared-list"}

// c18Rec is the Go type shared by every Marshal / Unmarshal call.
type c18Rec struct {
	Name  string            `ion:"name"`
	Sym   string            `ion:"sym,symbol"`
	N     int32             `ion:"n"`
	List  []int             `ion:"list,omitempty"`
	M     map[string]string `ion:"m"`
	Inner *c18Inner         `ion:"inner"`
	drive.EmbInner
	T   ion.Timestamp `ion:"t"`
	Any interface{}   `ion:"any"`
}

type c18Inner struct {
	A []string `ion:"a,sexp"`
	B []byte   `ion:"b,clob"`
}

// c18Shared are the objects every goroutine of a workload shares.
type c18Shared struct {
	ssts    []ion.SharedSymbolTable
	cat     ion.Catalog
	lst     ion.SymbolTable
	vals    [][]model.Value // value sequences to write
	docs    [][]byte        // documents to read (binary with imports, text)
	recs    []c18Rec
	recDocs [][]byte
	// dynType is a struct type no earlier workload of this process has used, so
	// that anything ion-go builds lazily per Go type is first built during the
	// concurrent phase.
	dynType reflect.Type
	// wrapType is a per-workload annotation wrapper type ({V int; Ann []SymbolToken `ion:",annotations"`}).
	wrapType reflect.Type
	// bld keeps being used (one goroutine at a time: bldMu) after built was built
	// from it; built is shared like any other table
	bld   ion.SymbolTableBuilder
	bldMu sync.Mutex
	built ion.SymbolTable
	// common is a token list with spare capacity that workloads pass prefixes of
	// to Writer.Annotations
	common []ion.SymbolToken
	// scratch: the slices the shared tables were built from; the harness goes on
	// writing to them (its own writes ordered by scratchMu)
	scratch   [][]string
	scratchMu sync.Mutex
}

var c18Nonce int64

func c18DynType(nonce int64) reflect.Type {
	return reflect.StructOf([]reflect.StructField{
		{Name: fmt.Sprintf("F%d", nonce), Type: reflect.TypeOf(0), Tag: `ion:"f"`},
		{Name: "S", Type: reflect.TypeOf(""), Tag: `ion:"s,symbol"`},
		{Name: "L", Type: reflect.TypeOf([]string(nil)), Tag: `ion:"l,omitempty"`},
	})
}

func c18WrapType(nonce int64) reflect.Type {
	return reflect.StructOf([]reflect.StructField{
		{Name: fmt.Sprintf("V%d", nonce), Type: reflect.TypeOf(0)},
		{Name: "Ann", Type: reflect.TypeOf([]ion.SymbolToken(nil)), Tag: `ion:",annotations"`},
	})
}

var c18WrapDocs = []string{`unit::5`, `unit::"five"`, `7`, `a::b::-3`, `unit::2.5`, `k::null`, `unit::[1]`, `unit::99`}

// c18BigDoc: two lobs longer than 64 KiB in one binary document: what a reader
// returned for the first must survive reading the second, here and in every
// other goroutine. Built once (read-only input bytes).
var c18BigDocOnce sync.Once
var c18BigDocBytes []byte

func c18BigDoc() []byte {
	c18BigDocOnce.Do(func() {
		big1, big2 := make([]byte, 70000), make([]byte, 66000)
		for i := range big1 {
			big1[i] = byte('a' + i%23)
		}
		for i := range big2 {
			big2[i] = byte('A' + i%19)
		}
		vals := []model.Value{model.BlobV(big1), model.ClobV(big2), model.Int64V(1)}
		var buf bytes.Buffer
		w := ion.NewBinaryWriter(&buf)
		drive.WriteSeq(w, vals, nil)
		w.Finish()
		c18BigDocBytes = buf.Bytes()
	})
	return c18BigDocBytes
}

// c18Inputs are the read-only inputs of every workload (values to write,
// documents to read, records): built once, never written to afterwards.
var c18InputsOnce sync.Once
var c18Inputs *c18Shared

// c18Setup builds a fresh set of the objects the goroutines of one workload
// share (tables, catalog, fixed table, per-workload Go types).
func c18Setup(nonce int64) *c18Shared {
	c18InputsOnce.Do(func() { c18Inputs = c18Build(0) })
	s := c18Build(nonce)
	return s
}

func c18Build(nonce int64) *c18Shared {
	s := &c18Shared{dynType: c18DynType(nonce), wrapType: c18WrapType(nonce)}
	s.scratch = [][]string{
		{"a", "b", "name", "sym", "abc"},
		{"x", "y", "a", "n", "list", "inner"},
		{"m", "t", "any", "k1", "k2", "zz"},
	}
	s.ssts = []ion.SharedSymbolTable{
		ion.NewSharedSymbolTable("t1", 1, s.scratch[0]),
		ion.NewSharedSymbolTable("t2", 2, s.scratch[1]),
		ion.NewSharedSymbolTable("t3", 1, s.scratch[2]),
	}
	// the caller goes on using the slices it built the tables from (and keeps
	// doing so during the run, operation 8): a table that kept them would now
	// answer with texts that differ from one set of shared objects to the next
	for i := range s.scratch {
		s.scratch[i][0] = fmt.Sprintf("reused-%d-%d", nonce, i)
		s.scratch[i][len(s.scratch[i])-1] = fmt.Sprintf("reused-%d-%d-last", nonce, i)
	}
	s.cat = ion.NewCatalog(append([]ion.SharedSymbolTable{ion.NewSharedSymbolTable("t2", 1, []string{"x"})}, s.ssts...)...)
	s.lst = ion.NewLocalSymbolTable(s.ssts, []string{"loc1", "loc2", "f", "g", "s"})
	s.bld = ion.NewSymbolTableBuilder(s.ssts[0])
	s.bld.Add("early1")
	s.bld.Add("early2")
	s.built = s.bld.Build()
	s.common = make([]ion.SymbolToken, 3, 8)
	for i, t := range []string{"alpha", "beta", "gamma"} {
		s.common[i] = ion.NewSymbolTokenFromString(t)
	}
	if nonce != 0 {
		in := c18Inputs
		s.vals, s.docs, s.recs, s.recDocs = in.vals, in.docs, in.recs, in.recDocs
		return s
	}
	texts := []string{"a", "b", "name", "x", "y", "m", "k1", "zz", "loc1", "f", "abc", "sym"}
	for i := 0; i < 8; i++ {
		var vals []model.Value
		for j := 0; j < 3+i%3; j++ {
			t1, t2 := texts[(i*3+j)%len(texts)], texts[(i+j*5)%len(texts)]
			vals = append(vals, model.StructV(
				model.Field{Name: model.S(t1), Val: model.SymV(model.S(t2))},
				model.Field{Name: model.S(t2), Val: model.ListV(model.Int64V(int64(i*100+j)), model.StrV(t1), model.SymV(model.S(t1)).WithAnn(model.S(t2)))},
			).WithAnn(model.S(t1)))
		}
		// text that needs \xHH escapes (control characters, high clob bytes)
		vals = append(vals, model.ListV(model.StrV(fmt.Sprintf("ctl\x01\x02\x1f%c", rune(1+i))), model.ClobV([]byte{0x80, 0xFF, byte(i), 0x0E, 0x7F}), model.SymV(model.S(fmt.Sprintf("s\x03%c", rune(14+i))))))
		s.vals = append(s.vals, vals)
	}
	for i, vals := range s.vals {
		var buf bytes.Buffer
		w := ion.NewBinaryWriter(&buf, s.ssts[:1+i%3]...)
		if err := drive.WriteSeq(w, vals, nil); err != nil {
			harnessBug("C18 setup: %v", err)
		}
		if err := w.Finish(); err != nil {
			harnessBug("C18 setup: %v", err)
		}
		s.docs = append(s.docs, buf.Bytes())
		var tb bytes.Buffer
		tw := ion.NewTextWriter(&tb)
		drive.WriteSeq(tw, vals, nil)
		tw.Finish()
		s.docs = append(s.docs, tb.Bytes())
	}
	s.docs = append(s.docs, c18BigDoc())
	// imports of versions the catalog does not hold, with max_id equal to the size
	// of the version it does hold (the substitute must not be written to)
	s.docs = append(s.docs,
		[]byte(`$ion_symbol_table::{imports:[{name:"t2",version:7,max_id:6},{name:"t1",version:3,max_id:5}],symbols:["own"]} $10 $15 $16 $21 {$11:$12}`),
		[]byte(`$ion_symbol_table::{imports:[{name:"t3",version:9,max_id:6}]} $10 $15`))
	for i := 0; i < 6; i++ {
		r := c18Rec{Name: fmt.Sprintf("rec%d\x01\x1e%c", i, rune(2+i)), Sym: texts[i], N: int32(i * 1000), M: map[string]string{texts[i]: "w"}, // one key: binary Marshal does not sort maps
			EmbInner: drive.EmbInner{X: i, Y: texts[i]}, T: ion.MustParseTimestamp("2020-02-29T01:02:03.5+01:00"), Any: []interface{}{i, "s"}}
		if i%2 == 0 {
			r.List = []int{i, i + 1}
			r.Inner = &c18Inner{A: []string{"p", "q\x05"}, B: []byte{'c', 0x00, 0x9C, byte(0xF0 + i)}}
		}
		s.recs = append(s.recs, r)
		b, err := ion.MarshalBinary(r, s.ssts...)
		if err != nil {
			harnessBug("C18 setup: %v", err)
		}
		s.recDocs = append(s.recDocs, b)
		tx, _ := ion.MarshalText(r)
		s.recDocs = append(s.recDocs, tx)
	}
	return s
}

// c18Do performs one operation and returns a rendering of everything it
// produced (bytes, observed values, errors).
func c18Do(s *c18Shared, op C18Op) string {
	a := op.Arg
	if a < 0 {
		a = -a
	}
	switch op.Kind % len(c18Kinds) {
	case 0:
		var buf bytes.Buffer
		w := ion.NewBinaryWriter(&buf, s.ssts[:1+a%3]...)
		err := drive.WriteSeq(w, s.vals[a%len(s.vals)], nil)
		err2 := w.Finish()
		return fmt.Sprintf("%x %v %v", buf.Bytes(), err, err2)
	case 1:
		var buf bytes.Buffer
		w := ion.NewBinaryWriterLST(&buf, s.lst)
		err := drive.WriteSeq(w, s.vals[a%len(s.vals)], nil)
		err2 := w.Finish()
		return fmt.Sprintf("%x %v %v", buf.Bytes(), err != nil, err2 != nil)
	case 2:
		var buf bytes.Buffer
		w := ion.NewTextWriterOpts(&buf, ion.TextWriterOpts(a%2)*ion.TextWriterPretty, s.ssts[a%3])
		err := drive.WriteSeq(w, s.vals[a%len(s.vals)], nil)
		err2 := w.Finish()
		return fmt.Sprintf("%s %v %v", buf.Bytes(), err, err2)
	case 3:
		vals, err := drive.Observe(ion.NewReaderCat(bytes.NewReader(s.docs[a%len(s.docs)]), s.cat))
		return fmt.Sprintf("%s %v", model.SeqString(vals), err)
	case 4:
		if a%3 == 0 {
			// the per-workload struct type: marshal and unmarshal it
			v := reflect.New(s.dynType).Elem()
			v.Field(0).SetInt(int64(a))
			v.Field(1).SetString("abc")
			t1, e1 := ion.MarshalText(v.Interface())
			b1, e2 := ion.MarshalBinary(v.Addr().Interface(), s.ssts...)
			back := reflect.New(s.dynType)
			e3 := ion.Unmarshal(b1, back.Interface(), s.ssts...)
			return fmt.Sprintf("%s %x %v %v %v %v", t1, b1, e1, e2, e3, back.Elem().Interface())
		}
		r := s.recs[a%len(s.recs)]
		t1, e1 := ion.MarshalText(r)
		b1, e2 := ion.MarshalBinary(&r, s.ssts...)
		b2, e3 := ion.MarshalBinaryLST(r.EmbInner, s.lst)
		return fmt.Sprintf("%s %x %x %v %v %v", t1, b1, b2, e1, e2, e3 != nil)
	case 5:
		var r c18Rec
		err := ion.Unmarshal(s.recDocs[a%len(s.recDocs)], &r, s.ssts...)
		var m map[string]interface{}
		err2 := ion.Unmarshal(s.recDocs[a%len(s.recDocs)], &m, s.ssts...)
		tx, _ := ion.MarshalText(r)
		return fmt.Sprintf("%s %v %d %v", tx, err, len(m), err2)
	case 6:
		t := s.ssts[a%3].Adjust(uint64(a % 9))
		var buf bytes.Buffer
		w := ion.NewBinaryWriter(&buf, t)
		err := drive.WriteSeq(w, s.vals[a%len(s.vals)], nil)
		w.Finish()
		id, ok := t.FindByName("a")
		return fmt.Sprintf("%x %v %d %v %d", buf.Bytes(), err, id, ok, t.MaxID())
	case 7:
		e := s.cat.FindExact("t2", 1+a%3)
		l := s.cat.FindLatest([]string{"t1", "t2", "t3", "nope"}[a%4])
		c2 := ion.NewCatalog(s.ssts[a%3])
		return fmt.Sprintf("%v %v %v", e != nil, l != nil && l.Version() > 0, c2.FindLatest("t1") != nil)
	case 8:
		id, ok := ion.V1SystemSymbolTable.FindByName([]string{"name", "$ion", "symbols", "nope"}[a%4])
		tx, ok2 := ion.V1SystemSymbolTable.FindByID(uint64(a % 12))
		id3, ok3 := s.ssts[a%3].FindByName("a")
		id4, ok4 := s.lst.FindByName([]string{"loc1", "a", "zz", "nope"}[a%4])
		tok, err := ion.NewSymbolToken(s.lst, "f")
		// what Symbols() / Imports() hand out belongs to the caller: writing to it
		// must not reach the table
		for _, list := range [][]string{s.ssts[a%3].Symbols(), s.lst.Symbols(), s.built.Symbols()} {
			for i := range list {
				list[i] = "scribbled"
			}
		}
		if imps := s.lst.Imports(); len(imps) > 0 {
			imps[len(imps)-1] = nil
		}
		s.scratchMu.Lock()
		s.scratch[a%3][1+a%2] = "reused-again"
		s.scratchMu.Unlock()
		tx5, ok5 := s.ssts[a%3].FindByID(1)
		tx6, ok6 := s.lst.FindByID(s.lst.MaxID())
		return fmt.Sprintf("%d %v %s %v %d %v %d %v %v %v %s %v %s %v %d", id, ok, tx, ok2, id3, ok3, id4, ok4, tok.LocalSID, err, tx5, ok5, tx6, ok6, len(s.lst.Imports()))
	case 9:
		d, err := ion.ParseDecimal([]string{"1.5", "-0d3", "123456789012345678901234567890d-5", "1d300"}[a%4])
		ts, err2 := ion.ParseTimestamp([]string{"2020-02-29T01:02:03.5+01:00", "2001T", "2001-02-03T04:05Z", "2001-02-03T04:05:06.123456789-00:00"}[a%4])
		s2 := ""
		if err == nil {
			s2 = d.String() + " " + ion.MustParseDecimal("2.5").Add(d).String()
		}
		return fmt.Sprintf("%s %v %s %v", s2, err, ts.String(), err2)
	case 10:
		b := ion.NewSymbolTableBuilder(s.ssts[:1+a%3]...)
		i1, n1 := b.Add("a")
		i2, n2 := b.Add(fmt.Sprint("new", a))
		t := b.Build()
		i3, ok := t.FindByName("zz")
		return fmt.Sprintf("%d %v %d %v %d %d %v", i1, n1, i2, n2, t.MaxID(), i3, ok)
	case 13:
		// the builder a shared table came from keeps growing (never from two
		// goroutines at once); the table must stay what it was
		s.bldMu.Lock()
		s.bld.Add(fmt.Sprint("late", a%7))
		s.bldMu.Unlock()
		id1, ok1 := s.built.FindByName("early2")
		id2, ok2 := s.built.FindByName(fmt.Sprint("late", a%7))
		id3, ok3 := s.built.FindByName(fmt.Sprint("late", (a+3)%7))
		var buf bytes.Buffer
		w := ion.NewBinaryWriterLST(&buf, s.built)
		e1 := w.WriteSymbolFromString("early1")
		e2 := w.WriteSymbolFromString(fmt.Sprint("late", (a+1)%7))
		e3 := w.Finish()
		return fmt.Sprintf("%d %v %d %v %d %v %d %x %v %v %v", id1, ok1, id2, ok2, id3, ok3, s.built.MaxID(), buf.Bytes(), e1 != nil, e2 != nil, e3 != nil)
	case 14:
		// a prefix of the shared token list goes to Annotations, one more
		// annotation follows on the same value
		var buf bytes.Buffer
		var w ion.Writer
		if a%4 < 2 {
			w = ion.NewTextWriter(&buf)
		} else {
			w = ion.NewBinaryWriter(&buf)
		}
		e1 := w.Annotations(s.common[:2+a%2]...)
		e2 := w.Annotation(ion.NewSymbolTokenFromString(fmt.Sprint("w", a)))
		e3 := w.WriteInt(int64(a))
		e4 := w.Finish()
		return fmt.Sprintf("%x %v %v %v %v", buf.Bytes(), e1, e2, e3, e4)
	case 12:
		// decode into the per-workload annotation wrapper: documents it accepts and
		// documents it refuses; a refusal in one goroutine must not change what the
		// others get
		back := reflect.New(s.wrapType)
		err := ion.UnmarshalString(c18WrapDocs[a%len(c18WrapDocs)], back.Interface())
		var anns []string
		for _, tok := range back.Elem().Field(1).Interface().([]ion.SymbolToken) {
			anns = append(anns, drive.SymOf(&tok).String())
		}
		msg := fmt.Sprint(err)
		if err != nil {
			// the message names the per-workload type
			msg = strings.ReplaceAll(msg, s.wrapType.Field(0).Name, "V")
		}
		return fmt.Sprintf("%d %v %s", back.Elem().Field(0).Int(), anns, msg)
	default:
		var buf bytes.Buffer
		r := ion.NewReaderCat(bytes.NewReader(s.docs[a%len(s.docs)]), s.cat)
		var w ion.Writer
		if a%2 == 0 {
			w = ion.NewBinaryWriter(&buf, s.ssts[a%3])
		} else {
			w = ion.NewTextWriter(&buf)
		}
		err := drive.Copy(r, w)
		w.Finish()
		return fmt.Sprintf("%x %v", buf.Bytes(), err)
	}
}

func c18RunScript(s *c18Shared, script []C18Op, yield bool) []string {
	out := make([]string, len(script))
	for i, op := range script {
		out[i] = c18Do(s, op)
		if len(out[i]) > 8192 {
			out[i] = fmt.Sprintf("%s... (%d bytes, digest %016x)", out[i][:200], len(out[i]), model.DigestBytes("c18", []byte(out[i])))
		}
		if yield {
			runtime.Gosched()
		}
	}
	return out
}

// c18Current is where the case in flight is recorded, so that the driver can
// attribute a race report (which ends the process) to it.
func c18Current(c C18Case) {
	dir := os.Getenv("VERIF_TMP")
	if dir == "" {
		return
	}
	i, _ := Shard()
	b, _ := json.Marshal(replayFile{Property: "C18", Sub: "workload", Case: mustJSON(c)})
	os.WriteFile(filepath.Join(dir, fmt.Sprintf("c18-current-%d.json", i)), b, 0o644)
}

func mustJSON(v interface{}) json.RawMessage {
	b, _ := json.Marshal(v)
	return b
}

func runC18(c C18Case) string {
	st := Stat("C18")
	c18Current(c)
	kinds := map[int]int{}
	nops := 0
	for _, sc := range c.Scripts {
		seen := map[int]bool{}
		for _, op := range sc {
			k := op.Kind % len(c18Kinds)
			if !seen[k] {
				seen[k] = true
				kinds[k]++
			}
			nops++
		}
	}
	sharedByTwo := 0
	var classes []string
	for k, n := range kinds {
		if n >= 2 {
			sharedByTwo++
		}
		classes = append(classes, "op."+c18Kinds[k])
	}
	st.Eval(len(c.Scripts) >= 2 && sharedByTwo >= 1 && kinds[4]+kinds[5] > 0 && kinds[3]+kinds[11] > 0, model.DigestBytes("c18", mustJSON(c)), classes...)
	st.Sample(func() string {
		return fmt.Sprintf("%d goroutines, %d operations, GOMAXPROCS=%d: %v", len(c.Scripts), nops, c.GoMaxProcs, c.Scripts)
	})
	if c.GoMaxProcs > 0 {
		defer runtime.GOMAXPROCS(runtime.GOMAXPROCS(c.GoMaxProcs))
	}
	nonce := atomic.AddInt64(&c18Nonce, 1)
	// the concurrent run goes first, on a fresh set of shared objects, so that
	// anything built lazily is built under contention
	shared := c18Setup(nonce)
	conc := make([][]string, len(c.Scripts))
	var wg sync.WaitGroup
	start := make(chan struct{})
	panics := make([]string, len(c.Scripts))
	for i, sc := range c.Scripts {
		wg.Add(1)
		go func(i int, sc []C18Op) {
			defer wg.Done()
			defer func() {
				if r := recover(); r != nil {
					panics[i] = fmt.Sprint(r)
				}
			}()
			<-start
			conc[i] = c18RunScript(shared, sc, c.Yield)
		}(i, sc)
	}
	close(start)
	wg.Wait()
	// reference: every script run alone, on its own fresh set of shared objects
	// and per-workload Go types
	seq := make([][]string, len(c.Scripts))
	for i, sc := range c.Scripts {
		seq[i] = c18RunScript(c18Setup(atomic.AddInt64(&c18Nonce, 1)), sc, false)
	}
	for i := range c.Scripts {
		if panics[i] != "" {
			return fmt.Sprintf("goroutine %d panicked when run concurrently: %s", i, firstLine(panics[i], 300))
		}
		for j := range seq[i] {
			if conc[i][j] != seq[i][j] {
				return fmt.Sprintf("goroutine %d, operation %d (%s, arg %d) produced a different result when run concurrently with %d other goroutines\nalone:      %s\nconcurrent: %s", i, j, c18Kinds[c.Scripts[i][j].Kind%len(c18Kinds)], c.Scripts[i][j].Arg, len(c.Scripts)-1, clipStr(seq[i][j], 300), clipStr(conc[i][j], 300))
			}
		}
	}
	return ""
}

func genC18(t *rapid.T) C18Case {
	c := C18Case{GoMaxProcs: gen.Pick(t, []int{2, 4, 16}), Yield: gen.Chance(t, 50)}
	n := gen.Pick(t, []int{2, 2, 3, 4, 8, 16, 32})
	for i := 0; i < n; i++ {
		k := gen.Range(t, 1, 8)
		var sc []C18Op
		for j := 0; j < k; j++ {
			sc = append(sc, C18Op{Kind: gen.Intn(t, len(c18Kinds)), Arg: gen.Intn(t, 64)})
		}
		c.Scripts = append(c.Scripts, sc)
	}
	return c
}

func TestC18(t *testing.T) {
	p := Prop[C18Case]{ID: "C18", Sub: "workload", Gen: genC18, Run: runC18, Quick: 500, Thorough: 4000}
	// every operation kind against every other, two goroutines each
	Enumerate(t, p, "all-pairs", func(yield func(C18Case) bool) {
		for a := 0; a < len(c18Kinds); a++ {
			for b := a; b < len(c18Kinds); b++ {
				var s1, s2 []C18Op
				for i := 0; i < 4; i++ {
					s1 = append(s1, C18Op{Kind: a, Arg: i * 7})
					s2 = append(s2, C18Op{Kind: b, Arg: i*7 + 3})
				}
				if !yield(C18Case{Scripts: [][]C18Op{s1, s2, s1, s2}, GoMaxProcs: 4, Yield: b%2 == 0}) {
					return
				}
			}
		}
	})
	RunProp(t, p)
}

var _ = strings.Contains

func init() {
	Describe("C18",
		"cases: a workload of 2-32 goroutines, each running its own script of 1-8 operations over private Readers / Writers / Encoders / Decoders but shared objects: three SharedSymbolTables (and copies made by Adjust during the run), a Catalog, V1SystemSymbolTable, one fixed local symbol table handed to many NewBinaryWriterLST / MarshalBinaryLST calls, one Go struct type (embedded struct, tags, map, pointer, interface) for all Marshal / Unmarshal calls, a per-workload struct type and a per-workload annotation-wrapper type (decoded from documents it accepts and documents it refuses), a document with two lobs above 64 KiB whose returned slices are re-checked after further reading, a table built by a SymbolTableBuilder that keeps growing afterwards (one goroutine at a time), a token list with spare capacity whose prefixes go to Writer.Annotations, the slices the shared tables were built from (written to again by the harness after construction and during the run, under its own mutex), and the package-level tables; operations: binary writer with shared tables, binary writer with the fixed table, text / pretty writer, reader with the catalog, Marshal (text, binary, fixed table), Unmarshal, Adjust-then-use, catalog look-ups and NewCatalog, table look-ups, Decimal / Timestamp parsing and arithmetic, SymbolTableBuilder, reader-to-writer copy; GOMAXPROCS in {2, 4, 16}, optional Gosched between operations; enumerated: every pair of operation kinds, two goroutines each. Non-trivial: at least two goroutines use the same kind of shared object, with at least one marshal and one reader-with-catalog operation. Distinct by digest(scripts).",
		"oracle: the test binary is built with -race and run with GORACE=halt_on_error=1: any data race report ends the process and is a violation attributed to the workload in flight; every operation's result (bytes, observed values, errors) when run concurrently, on a fresh set of shared objects, must equal its result when its script is run alone on fresh objects and types",
		"schedules are sampled, not enumerated: the race detector reports two conflicting unsynchronised accesses whenever both occur in a run, whatever their timing, but a wrongly-ordered yet synchronised interleaving, or a race on a path no script executes, is not found",
	)
}
