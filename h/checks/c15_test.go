package checks

import (
	"bytes"
	"fmt"
	"math/big"
	"strings"
	"testing"
	"time"

	"github.com/amzn/ion-go/ion"
	"pgregory.net/rapid"

	"verif/h/drive"
	"verif/h/gen"
	"verif/h/model"
	"verif/h/refbin"
	"verif/h/reftext"
)

// C15 — timestamps keep instant, offset, precision and fraction digits.

type C15Case struct {
	TS model.TS `json:"ts"`
	// Choice drives the reference encoder's representation choices.
	Choice int `json:"choice"`
}

func tsTraits(t model.TS) (bool, []string) {
	var cls []string
	nt := false
	if t.FracDigits > 0 {
		s := fmt.Sprintf("%09d", t.Nanos)[:t.FracDigits]
		if strings.HasPrefix(s, "0") || strings.HasSuffix(s, "0") {
			nt = true
			cls = append(cls, "frac-leading-or-trailing-zero")
		}
		cls = append(cls, "frac")
	}
	if t.Prec >= model.PMinute && t.OffsetKnown && t.Offset != 0 {
		nt = true
		cls = append(cls, "offset-nonzero")
	}
	if t.Prec >= model.PMinute && !t.OffsetKnown {
		cls = append(cls, "offset-unknown")
	}
	if t.Prec >= model.PDay && (t.Day == 1 || t.Day == model.DaysInMonth(t.Year, t.Month)) {
		nt = true
		cls = append(cls, "month-boundary")
	}
	if y, _, _, _, _ := t.UTCFields(); y < 1 || y > 9999 {
		cls = append(cls, "utc-year-out-of-1..9999")
	}
	cls = append(cls, fmt.Sprintf("prec.%d", t.Prec))
	return nt, cls
}

func runC15(c C15Case) string {
	st := Stat("C15")
	t := c.TS
	if !t.ValidFields() {
		return "harness: invalid model timestamp"
	}
	want := model.TSV(t)
	nt, cls := tsTraits(t)
	st.Eval(nt, model.DigestBytes("ts", []byte(fmt.Sprintf("%+v/%d", t.Canon(), c.Choice))), cls...)
	st.Sample(func() string { return t.String() })
	return drive.Guard2(func() string {
		its := drive.IonTS(t)
		// (1) String() is a valid literal denoting the same timestamp
		s := its.String()
		res, err := reftext.Parse([]byte(s), reftext.Options{})
		if err != nil {
			return fmt.Sprintf("String()=%q is not a valid Ion timestamp literal: %v", s, err)
		}
		if len(res.Values) != 1 || model.Diff(want, res.Values[0]) != "" {
			return fmt.Sprintf("String()=%q denotes %s, want %s", s, model.SeqString(res.Values), want)
		}
		// (2) ParseTimestamp(String()) recovers it
		back, err := ion.ParseTimestamp(s)
		if err != nil {
			return fmt.Sprintf("ParseTimestamp(%q): %v", s, err)
		}
		if d := model.Diff(want, model.TSV(drive.TSOf(back))); d != "" {
			return fmt.Sprintf("ParseTimestamp(String()) via %q: %s", s, d)
		}
		// (2b) the other constructors build the same timestamp, and Equal agrees
		// with the data model: equal to what was parsed back, different from a
		// timestamp that differs in one component
		if !back.Equal(its) || !its.Equal(back) {
			return fmt.Sprintf("ParseTimestamp(String()) via %q is not Equal to the original (%s vs %s)", s, back.String(), its.String())
		}
		fs, err := ion.NewTimestampFromStr(s, its.GetPrecision(), its.GetTimezoneKind())
		if err != nil || !fs.Equal(its) {
			return fmt.Sprintf("NewTimestampFromStr(%q, %v, %v) gives %s, %v", s, its.GetPrecision(), its.GetTimezoneKind(), fs.String(), err)
		}
		nt := ion.NewTimestamp(its.GetDateTime(), its.GetPrecision(), its.GetTimezoneKind())
		wantNT := t
		if t.Prec == model.PSecond && t.FracDigits > 0 {
			wantNT.FracDigits = 9 // NewTimestamp: nanosecond precision means nine digits
		}
		if d := model.Diff(model.TSV(wantNT), model.TSV(drive.TSOf(nt))); d != "" {
			return fmt.Sprintf("NewTimestamp(GetDateTime(), GetPrecision(), GetTimezoneKind()) of %s gives %s: %s", s, nt.String(), d)
		}
		if t.Prec == model.PSecond {
			unit := 1
			for i := t.FracDigits; i < 9; i++ {
				unit *= 10
			}
			if got := its.TruncatedNanoseconds(); got != t.Nanos/unit {
				return fmt.Sprintf("TruncatedNanoseconds() of %s = %d, want %d", s, got, t.Nanos/unit)
			}
		}
		for _, o := range tsNeighbours(t) {
			if !o.ValidFields() || model.Diff(want, model.TSV(o)) == "" {
				continue
			}
			if its.Equal(drive.IonTS(o)) || drive.IonTS(o).Equal(its) {
				return fmt.Sprintf("Timestamp.Equal holds between %s and %s", t.String(), o.String())
			}
		}
		// the text reader on the reference printer's spelling
		txt := printDoc([]model.Value{want}, &cycleChooser{k: c.Choice})
		got, rerr := drive.Observe(ion.NewReaderBytes(txt.Doc))
		if rerr != nil || len(got) != 1 || model.Diff(want, got[0]) != "" {
			return fmt.Sprintf("text reader on %q: %s %v", txt.Doc, model.SeqString(got), rerr)
		}
		// (3) binary write (ion-go) -> reference decode
		var buf bytes.Buffer
		w := ion.NewBinaryWriter(&buf)
		if err := w.WriteTimestamp(its); err != nil {
			return "binary WriteTimestamp: " + err.Error()
		}
		if err := w.Finish(); err != nil {
			return "binary Finish: " + err.Error()
		}
		bres, derr := refbin.Decode(buf.Bytes(), refbin.Options{RequireIVM: true})
		if derr != nil {
			return fmt.Sprintf("binary writer output % x rejected by the reference decoder: %v", buf.Bytes(), derr)
		}
		if len(bres.Values) != 1 || model.Diff(want, bres.Values[0]) != "" {
			return fmt.Sprintf("binary writer output % x denotes %s, want %s", buf.Bytes(), model.SeqString(bres.Values), want)
		}
		// binary write -> ion-go read
		got, rerr = drive.Observe(ion.NewReaderBytes(buf.Bytes()))
		if rerr != nil || len(got) != 1 || model.Diff(want, got[0]) != "" {
			return fmt.Sprintf("binary round trip % x: %s %v, want %s", buf.Bytes(), model.SeqString(got), rerr, want)
		}
		// a date-precision timestamp built from a time.Time in some other zone keeps
		// its calendar date in both formats (it has no offset to convert by)
		if t.Prec <= model.PDay {
			mo, da := t.Month, t.Day
			if t.Prec < model.PMonth {
				mo = 1
			}
			if t.Prec < model.PDay {
				da = 1
			}
			for _, zone := range []*time.Location{time.FixedZone("", 5*3600), time.FixedZone("", -5*3600), time.FixedZone("", 14*3600)} {
				z := ion.NewDateTimestamp(time.Date(t.Year, time.Month(mo), da, 0, 0, 0, 0, zone), its.GetPrecision())
				if z.String() != s {
					return fmt.Sprintf("NewDateTimestamp from midnight in zone %v: String()=%q, want %q", zone, z.String(), s)
				}
				var zb bytes.Buffer
				zw := ion.NewBinaryWriter(&zb)
				if err := zw.WriteTimestamp(z); err != nil {
					return "binary WriteTimestamp: " + err.Error()
				}
				if err := zw.Finish(); err != nil {
					return "binary Finish: " + err.Error()
				}
				zres, zerr := refbin.Decode(zb.Bytes(), refbin.Options{RequireIVM: true})
				if zerr != nil || len(zres.Values) != 1 || model.Diff(want, zres.Values[0]) != "" {
					return fmt.Sprintf("NewDateTimestamp from midnight in zone %v: the binary writer's output % x denotes %s (%v), want %s", zone, zb.Bytes(), model.SeqString(zres.Values), zerr, want)
				}
			}
		}
		// reference encode (representation variants) -> ion-go read
		var ch refbin.Chooser
		if c.Choice > 0 {
			ch = &cycleChooser{k: c.Choice}
		}
		enc := encodeDoc([]model.Value{want}, ch)
		got, rerr = drive.Observe(ion.NewReaderBytes(enc.Doc))
		if rerr != nil || len(got) != 1 || model.Diff(want, got[0]) != "" {
			return fmt.Sprintf("binary reader on reference encoding % x: %s %v, want %s", enc.Doc, model.SeqString(got), rerr, want)
		}
		return ""
	})
}

// tsNeighbours are timestamps that differ from t in one component.
func tsNeighbours(t model.TS) []model.TS {
	var out []model.TS
	add := func(f func(o *model.TS)) {
		o := t
		f(&o)
		out = append(out, o)
	}
	add(func(o *model.TS) { o.Year = o.Year%9999 + 1 })
	if t.Prec >= model.PMonth {
		add(func(o *model.TS) { o.Month = o.Month%12 + 1; o.Day = min(o.Day, 28) })
	}
	if t.Prec >= model.PDay {
		add(func(o *model.TS) { o.Day = o.Day%28 + 1 })
	}
	if t.Prec >= model.PMinute {
		add(func(o *model.TS) { o.Hour = (o.Hour + 1) % 24 })
		add(func(o *model.TS) { o.Min = (o.Min + 1) % 60 })
		add(func(o *model.TS) { o.OffsetKnown = !o.OffsetKnown; o.Offset = 0 })
		add(func(o *model.TS) { o.OffsetKnown = true; o.Offset = (o.Offset+1440+61)%2879 - 1439 })
		// the same instant at another offset
		add(func(o *model.TS) {
			if o.Min < 59 && o.Offset < 1439 && o.OffsetKnown {
				o.Min++
				o.Offset++
			}
		})
	}
	if t.Prec == model.PSecond {
		add(func(o *model.TS) { o.Sec = (o.Sec + 1) % 60 })
		if t.FracDigits > 0 {
			add(func(o *model.TS) {
				unit := 1
				for i := o.FracDigits; i < 9; i++ {
					unit *= 10
				}
				o.Nanos = (o.Nanos + unit) % 1000000000
			})
		}
		if t.FracDigits < 9 {
			add(func(o *model.TS) { o.FracDigits++ }) // a trailing zero more
		}
		if t.FracDigits > 0 {
			add(func(o *model.TS) {
				unit := 1
				for i := o.FracDigits; i < 9; i++ {
					unit *= 10
				}
				if o.Nanos/unit%10 == 0 {
					o.FracDigits-- // a trailing zero less
				}
			})
		}
	}
	// one precision step down (fields beyond it dropped)
	switch t.Prec {
	case model.PMonth:
		add(func(o *model.TS) { o.Prec = model.PYear; o.Month = 1; o.Day = 1 })
	case model.PDay:
		add(func(o *model.TS) { o.Prec = model.PMonth; o.Day = 1 })
	case model.PSecond:
		if t.Sec == 0 && t.Nanos == 0 && t.FracDigits == 0 {
			add(func(o *model.TS) { o.Prec = model.PMinute })
		}
	}
	return out
}

// ---- invalid timestamps

type C15BadCase struct {
	Text string `json:"text,omitempty"`
	Bin  []byte `json:"bin,omitempty"` // timestamp body (after the type descriptor)
	Why  string `json:"why"`
}

func tsBinDoc(body []byte) []byte {
	b := append([]byte{}, refbin.IVM...)
	if len(body) < 14 {
		b = append(b, 0x60|byte(len(body)))
	} else {
		b = append(b, 0x6E)
		b = refbin.VarUInt(b, uint64(len(body)), 0)
	}
	return append(b, body...)
}

func runC15Bad(c C15BadCase) string {
	st := Stat("C15")
	st.Eval(true, model.DigestBytes("bad", append([]byte(c.Text), c.Bin...)), "invalid."+c.Why)
	return drive.Guard2(func() string {
		if c.Text != "" {
			// the reference must agree it is invalid (otherwise the case is wrong)
			if _, err := reftext.Parse([]byte(c.Text), reftext.Options{}); err == nil {
				return "harness: reference parser accepts " + c.Text
			}
			if ts, err := ion.ParseTimestamp(c.Text); err == nil {
				return fmt.Sprintf("ParseTimestamp(%q) accepted an impossible timestamp (%s): %v", c.Text, c.Why, ts)
			}
			vals, err := drive.Observe(ion.NewReaderString(c.Text))
			if err == nil {
				return fmt.Sprintf("text reader accepted %q (%s) as %s", c.Text, c.Why, model.SeqString(vals))
			}
			return ""
		}
		doc := tsBinDoc(c.Bin)
		if _, err := refbin.Decode(doc, refbin.Options{}); err == nil {
			return fmt.Sprintf("harness: reference decoder accepts % x", doc)
		} else if e, ok := err.(*refbin.Error); ok && e.Kind == refbin.Unsupported {
			return fmt.Sprintf("harness: reference decoder undecided on % x", doc)
		}
		vals, err := drive.Observe(ion.NewReaderBytes(doc))
		if err == nil {
			return fmt.Sprintf("binary reader accepted % x (%s) as %s", doc, c.Why, model.SeqString(vals))
		}
		return ""
	})
}

func binTS(offset int64, unknown bool, fields ...uint64) []byte {
	var b []byte
	b = refbin.VarInt(b, offset, unknown, 0)
	for _, f := range fields {
		b = refbin.VarUInt(b, f, 0)
	}
	return b
}

func badTimestamps() []C15BadCase {
	var out []C15BadCase
	txt := func(s, why string) { out = append(out, C15BadCase{Text: s, Why: why}) }
	txt("2021-13-01T", "month-13")
	txt("2021-00-01T", "month-0")
	txt("2021-13T", "month-13")
	txt("2021-02-30T", "feb-30")
	txt("2021-02-29T", "feb-29-nonleap")
	txt("1900-02-29T", "feb-29-1900")
	txt("2021-04-31T", "apr-31")
	txt("2021-01-00T", "day-0")
	txt("2021-01-32T", "day-32")
	txt("2021-01-01T24:00Z", "hour-24")
	txt("2021-01-01T24:00:00Z", "hour-24")
	txt("2021-01-01T12:60Z", "minute-60")
	txt("2021-01-01T12:60:00Z", "minute-60")
	txt("2021-01-01T12:30:60Z", "second-60")
	txt("2021-01-01T12:30:60.5Z", "second-60")
	txt("2021-01-01T23:59:60Z", "second-60")
	txt("2021-01-01T12:30+24:00", "offset-24h")
	txt("2021-01-01T12:30-24:00", "offset-24h")
	txt("2021-01-01T12:30:00+24:00", "offset-24h")
	txt("2021-01-01T12:30:00.000-25:00", "offset-24h")
	txt("2021-01-01T12:30+00:60", "offset-minute-60")
	txt("2021-01-01T12:30:00+12:60", "offset-minute-60")
	txt("0000-01-01T", "year-0")
	txt("2021-02-30T00:00Z", "feb-30")
	txt("2021-06-31T10:10:10.5+01:00", "jun-31")
	bin := func(b []byte, why string) { out = append(out, C15BadCase{Bin: b, Why: why}) }
	bin(binTS(0, false, 2021, 13), "month-13")
	bin(binTS(0, false, 2021, 0), "month-0")
	bin(binTS(0, false, 2021, 2, 30), "feb-30")
	bin(binTS(0, false, 2021, 2, 29), "feb-29-nonleap")
	bin(binTS(0, false, 2021, 4, 31), "apr-31")
	bin(binTS(0, false, 2021, 1, 0), "day-0")
	bin(binTS(0, false, 2021, 1, 32), "day-32")
	bin(binTS(0, false, 2021, 1, 1, 24, 0), "hour-24")
	bin(binTS(0, false, 2021, 1, 1, 12, 60), "minute-60")
	bin(binTS(0, false, 2021, 1, 1, 23, 60), "minute-60")
	bin(binTS(0, false, 2021, 1, 1, 12, 30, 60), "second-60")
	bin(binTS(0, false, 2021, 1, 1, 23, 59, 60), "second-60")
	bin(binTS(0, false, 2021, 12, 31, 23, 59, 60), "second-60")
	bin(binTS(0, false, 2021, 1, 1, 12), "hour-without-minute")
	bin(binTS(60, false, 2021, 1, 1, 12), "hour-without-minute")
	bin(binTS(0, true, 2021, 6, 15, 7), "hour-without-minute")
	bin(binTS(0, false, 2021, 2, 30, 10, 10), "feb-30")
	// fields of 2^63 and more (they must not wrap into range as signed numbers)
	bin(binTS(0, false, 2021, 1, 1, 5, ^uint64(0)), "minute-2^64-1")
	bin(binTS(0, false, 2021, 1, 1, 5, ^uint64(0)-59), "minute-2^64-60")
	bin(binTS(0, false, 2021, 1, 1, 5, 5, ^uint64(0)), "second-2^64-1")
	bin(binTS(0, false, 2021, 1, 1, 5, 1<<63), "minute-2^63")
	bin(binTS(0, false, 2021, 1, 1, ^uint64(0), 5), "hour-2^64-1")
	bin(binTS(0, false, 2021, 1, ^uint64(0)), "day-2^64-1")
	// offsets of 24 hours and more
	bin(binTS(1440, false, 2021, 1, 1, 5, 5), "offset-24h")
	bin(binTS(-1440, false, 2021, 1, 1, 5, 5), "offset-24h")
	bin(binTS(1500, false, 2021, 1, 1, 5, 5, 5), "offset-25h")
	bin(binTS(100000, false, 2021, 1, 1, 5, 5), "offset-1666h")
	bin(binTS(1<<62, false, 2021, 1, 1, 5, 5), "offset-2^62")
	bin(binTS(1<<62+60, false, 2021, 1, 1, 5, 5), "offset-2^62+60")
	return out
}

// ---- sub-nanosecond fractions

type C15SubCase struct {
	Binary bool   `json:"binary"`
	Digits string `json:"digits"` // fraction digits (10..30 of them)
	Sec    int    `json:"sec"`
	Min    int    `json:"min"`
	Hour   int    `json:"hour"`
	Day    int    `json:"day"` // day of 2021-12 or so
	Month  int    `json:"month"`
	Year   int    `json:"year"`
	// Unknown: the offset is unknown (-00:00) instead of UTC
	Unknown bool `json:"unknown,omitempty"`
}

func runC15Sub(c C15SubCase) string {
	st := Stat("C15")
	st.Eval(true, model.DigestBytes("sub", []byte(fmt.Sprintf("%+v", c))), "sub-nanosecond")
	frac, _ := new(big.Int).SetString(c.Digits, 10)
	nd := int64(len(c.Digits))
	// expected instant in units of 10^-nd seconds since 1970
	secs := model.DaysFromCivil(c.Year, c.Month, c.Day)*86400 + int64(c.Hour*3600+c.Min*60+c.Sec)
	scale := new(big.Int).Exp(big.NewInt(10), big.NewInt(nd), nil)
	exact := new(big.Int).Mul(big.NewInt(secs), scale)
	exact.Add(exact, frac)
	// got instant in ns -> same units
	nsToUnits := new(big.Int).Exp(big.NewInt(10), big.NewInt(nd-9), nil)
	half := new(big.Int).Div(nsToUnits, big.NewInt(2))
	slack := new(big.Int).Div(nsToUnits, big.NewInt(1000)) // 0.001 ns for the float-based text path
	if slack.Sign() == 0 {
		slack = big.NewInt(1)
	}
	// skip near-ties: |frac mod ns - half| tiny
	rem := new(big.Int).Mod(frac, nsToUnits)
	dist := new(big.Int).Sub(rem, half)
	dist.Abs(dist)
	nearTie := dist.Cmp(slack) <= 0
	// the last second of year 9999 with a fraction that rounds up to the next
	// second: the result would be year 10000, which is no timestamp: refused
	if c.Year == 9999 && c.Month == 12 && c.Day == 31 && c.Hour == 23 && c.Min == 59 && c.Sec == 59 {
		lim := new(big.Int).Sub(scale, half) // fraction >= 1 - half a nanosecond
		if frac.Cmp(lim) < 0 || nearTie {
			return ""
		}
		return drive.Guard2(func() string {
			if c.Binary {
				body := binTS(0, c.Unknown, 9999, 12, 31, 23, 59, 59)
				body = refbin.VarInt(body, -nd, false, 0)
				mag := frac.Bytes()
				if mag[0]&0x80 != 0 {
					mag = append([]byte{0}, mag...)
				}
				doc := tsBinDoc(append(body, mag...))
				got, err := drive.Observe(ion.NewReaderBytes(doc))
				if err == nil {
					return fmt.Sprintf("binary 9999-12-31T23:59:59.%s rounds up into year 10000 but was read without error as %s", c.Digits, model.SeqString(got))
				}
				return ""
			}
			lit := fmt.Sprintf("9999-12-31T23:59:59.%s%s", c.Digits, map[bool]string{false: "Z", true: "-00:00"}[c.Unknown])
			if t1, err := ion.ParseTimestamp(lit); err == nil {
				return fmt.Sprintf("ParseTimestamp(%q) rounds up into year 10000 but returned %s without error", lit, t1.String())
			}
			if got, err := drive.Observe(ion.NewReaderString(lit)); err == nil {
				return fmt.Sprintf("text %s rounds up into year 10000 but was read without error as %s", lit, model.SeqString(got))
			}
			return ""
		})
	}
	return drive.Guard2(func() string {
		var ts *ion.Timestamp
		if !c.Binary {
			s := fmt.Sprintf("%04d-%02d-%02dT%02d:%02d:%02d.%s%s", c.Year, c.Month, c.Day, c.Hour, c.Min, c.Sec, c.Digits, map[bool]string{false: "Z", true: "-00:00"}[c.Unknown])
			t1, err := ion.ParseTimestamp(s)
			if err != nil {
				return fmt.Sprintf("ParseTimestamp(%q): %v", s, err)
			}
			ts = &t1
			r := ion.NewReaderString(s)
			if !r.Next() {
				return fmt.Sprintf("text reader on %q: %v", s, r.Err())
			}
			t2, err := r.TimestampValue()
			if err != nil || t2 == nil {
				return fmt.Sprintf("text reader on %q: %v", s, err)
			}
			if !t2.GetDateTime().Equal(t1.GetDateTime()) {
				return fmt.Sprintf("reader and ParseTimestamp disagree on %q: %v vs %v", s, t2, t1)
			}
		} else {
			body := binTS(0, c.Unknown, uint64(c.Year), uint64(c.Month), uint64(c.Day), uint64(c.Hour), uint64(c.Min), uint64(c.Sec))
			body = refbin.VarInt(body, -nd, false, 0)
			mag := frac.Bytes()
			if len(mag) == 0 {
				mag = []byte{0}
			}
			if mag[0]&0x80 != 0 {
				mag = append([]byte{0}, mag...)
			}
			body = append(body, mag...)
			doc := tsBinDoc(body)
			r := ion.NewReaderBytes(doc)
			if !r.Next() {
				return fmt.Sprintf("binary reader on % x (fraction .%s): %v", doc, c.Digits, r.Err())
			}
			t1, err := r.TimestampValue()
			if err != nil || t1 == nil {
				return fmt.Sprintf("binary reader on % x: %v", doc, err)
			}
			ts = t1
		}
		dt := ts.GetDateTime()
		got := new(big.Int).Mul(big.NewInt(dt.Unix()), big.NewInt(1e9))
		got.Add(got, big.NewInt(int64(dt.Nanosecond())))
		got.Mul(got, nsToUnits)
		diff := new(big.Int).Sub(got, exact)
		diff.Abs(diff)
		limit := new(big.Int).Add(half, slack)
		if nearTie {
			limit.Add(limit, slack)
		}
		if diff.Cmp(limit) > 0 {
			return fmt.Sprintf("fraction .%s (binary=%v) at %04d-%02d-%02dT%02d:%02d:%02dZ read as %v: off by more than half a nanosecond", c.Digits, c.Binary, c.Year, c.Month, c.Day, c.Hour, c.Min, c.Sec, dt.UTC())
		}
		if want := map[bool]ion.TimezoneKind{false: ion.TimezoneUTC, true: ion.TimezoneUnspecified}[c.Unknown]; ts.GetTimezoneKind() != want {
			return fmt.Sprintf("fraction .%s (binary=%v, unknown offset=%v): offset kind %v, want %v", c.Digits, c.Binary, c.Unknown, ts.GetTimezoneKind(), want)
		}
		if ts.GetPrecision() != ion.TimestampPrecisionNanosecond || ts.GetNumberOfFractionalSeconds() != 9 {
			return fmt.Sprintf("fraction .%s: precision %v with %d digits, want nanosecond with 9", c.Digits, ts.GetPrecision(), ts.GetNumberOfFractionalSeconds())
		}
		return ""
	})
}

func genC15(t *rapid.T) C15Case {
	ts := gen.TS(t)
	if ts.Prec < model.PSecond && gen.Chance(t, 40) {
		ts.Prec = model.PSecond
		ts2 := gen.TS(t)
		if ts2.Prec == model.PSecond {
			ts.Sec, ts.Nanos, ts.FracDigits = ts2.Sec, ts2.Nanos, ts2.FracDigits
			if ts2.Prec >= model.PMinute {
				ts.Hour, ts.Min, ts.Offset, ts.OffsetKnown = ts2.Hour, ts2.Min, ts2.Offset, ts2.OffsetKnown
			}
		}
	}
	return C15Case{TS: ts, Choice: gen.Intn(t, 4)}
}

func genC15Sub(t *rapid.T) C15SubCase {
	n := gen.Range(t, 10, 30)
	ds := make([]byte, n)
	for i := range ds {
		ds[i] = byte('0' + gen.Intn(t, 10))
	}
	switch gen.Intn(t, 9) {
	case 6:
		// less than one nanosecond: nine leading zeros, the rest decides the rounding
		for i := 0; i < 9; i++ {
			ds[i] = '0'
		}
		ds[9] = byte('0' + gen.Pick(t, []int{0, 1, 4, 5, 6, 9}))
	case 7:
		// just above / just below half a nanosecond after nine arbitrary digits
		if gen.Chance(t, 50) {
			ds[9] = '6'
		} else {
			ds[9] = '4'
		}
		if gen.Chance(t, 50) {
			ds = ds[:10]
		}
	case 8:
		// short coefficient after many zeros (coefficient has fewer digits than the shift)
		for i := range ds {
			ds[i] = '0'
		}
		ds[gen.Range(t, 9, n-1)] = byte('1' + gen.Intn(t, 9))
	case 0:
		for i := range ds {
			ds[i] = '9'
		}
	case 1:
		for i := 0; i < 9 && i < n; i++ {
			ds[i] = '9'
		}
	case 2:
		for i := range ds {
			ds[i] = '0'
		}
		ds[n-1] = '1'
	}
	c := C15SubCase{Binary: gen.Chance(t, 50), Digits: string(ds), Year: gen.Pick(t, []int{2021, 1999, 9999, 1}), Month: 12, Day: 31,
		Hour: gen.Pick(t, []int{23, 0, 12}), Min: gen.Pick(t, []int{59, 0, 30}), Sec: gen.Pick(t, []int{59, 0, 30})}
	if c.Year == 9999 && c.Hour == 23 && c.Min == 59 && c.Sec == 59 && gen.Chance(t, 50) {
		c.Sec = 58 // otherwise: rounding up would leave the year range and must be refused
	}
	c.Unknown = gen.Chance(t, 35)
	return c
}

func TestC15(t *testing.T) {
	p := Prop[C15Case]{ID: "C15", Sub: "roundtrip", Gen: genC15, Run: runC15, Quick: 10000, Thorough: 200000}
	Enumerate(t, p, "calendar-grid", func(yield func(C15Case) bool) {
		years := []int{1, 4, 100, 1900, 2000, 2023, 2024, 9999}
		offsets := []struct {
			known bool
			off   int
		}{{false, 0}, {true, 0}, {true, 1}, {true, -1}, {true, 720}, {true, -720}, {true, 1439}, {true, -1439}}
		if Thorough() {
			for o := -1439; o <= 1439; o += 61 {
				offsets = append(offsets, struct {
					known bool
					off   int
				}{true, o})
			}
		}
		fracs := []struct{ digits, nanos int }{{0, 0}, {1, 0}, {1, 900000000}, {3, 1000000}, {3, 999000000}, {3, 120000000}, {6, 1000}, {6, 999999000}, {9, 1}, {9, 999999999}, {9, 100000000}, {9, 0}, {2, 50000000}}
		n := 0
		for _, y := range years {
			for m := 1; m <= 12; m++ {
				for _, d := range []int{1, model.DaysInMonth(y, m)} {
					for prec := model.PYear; prec <= model.PSecond; prec++ {
						if prec < model.PDay && d != 1 {
							continue
						}
						if prec < model.PMonth && m != 1 {
							continue
						}
						if prec < model.PMinute {
							n++
							if !yield(C15Case{TS: model.TS{Year: y, Month: m, Day: d, Prec: prec}, Choice: n % 4}) {
								return
							}
							continue
						}
						for _, hm := range [][3]int{{0, 0, 0}, {23, 59, 59}} {
							for _, o := range offsets {
								fs := fracs
								if prec == model.PMinute {
									fs = fracs[:1]
								}
								for _, f := range fs {
									n++
									ts := model.TS{Year: y, Month: m, Day: d, Hour: hm[0], Min: hm[1], Prec: prec, OffsetKnown: o.known, Offset: o.off}
									if prec == model.PSecond {
										ts.Sec, ts.FracDigits, ts.Nanos = hm[2], f.digits, f.nanos
									}
									if !yield(C15Case{TS: ts, Choice: n % 4}) {
										return
									}
								}
							}
						}
					}
				}
			}
		}
	})
	RunProp(t, p)

	pb := Prop[C15BadCase]{ID: "C15", Sub: "invalid", Run: runC15Bad}
	Enumerate(t, pb, "impossible-fields", func(yield func(C15BadCase) bool) {
		for _, c := range badTimestamps() {
			if !yield(c) {
				return
			}
		}
	})
	RunProp(t, pb)

	ps := Prop[C15SubCase]{ID: "C15", Sub: "subnano", Gen: genC15Sub, Run: runC15Sub, Quick: 3000, Thorough: 100000}
	Enumerate(t, ps, "carry-into-year-10000", func(yield func(C15SubCase) bool) {
		for _, ds := range []string{"9999999999", "99999999995", "9999999996", "999999999999999", "9999999995000000001"} {
			for m := 0; m < 4; m++ {
				if !yield(C15SubCase{Binary: m&1 == 1, Unknown: m&2 == 2, Digits: ds, Year: 9999, Month: 12, Day: 31, Hour: 23, Min: 59, Sec: 59}) {
					return
				}
			}
		}
	})
	RunProp(t, ps)
}

func init() {
	Describe("C15",
		"cases: (a) a timestamp (local year 1..9999, six precisions, unknown/UTC/+-offset to 1439 minutes, 0-9 fraction digits) taken through Timestamp.String -> reference parser, ParseTimestamp, the text reader on a reference-printed spelling, binary write -> reference decoder, binary write -> read, reference binary encoding (with representation variants) -> read: exhaustive calendar grid (8 years x every month start/end x 2 times x 8 offsets x 13 fraction shapes x precisions) plus random; (b) an enumerated list of impossible text literals and binary field tuples, each confirmed invalid by the reference decoder; (c) fractions of 10-30 digits in text and binary judged against exact big-integer rounding. Non-trivial: fraction with a leading or trailing zero, non-zero offset, or a date on a month boundary; every invalid and sub-nanosecond case. Distinct by digest(case).",
		"oracle: reference timestamp model with civil-calendar arithmetic written in the harness (no package time)",
		"sub-nanosecond ties within 0.001 ns of .5 are accepted either way (the text path rounds through float64)",
	)
}
